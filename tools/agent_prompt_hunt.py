#!/usr/bin/env python3
"""Print the prompt for a defect-hunting sub-agent: property text + scratch worktree only (nothing from /verif)."""
import json, sys
pid, name = sys.argv[1], sys.argv[2]
p = next(json.loads(l) for l in open('/verif/properties.jsonl') if json.loads(l)['id'] == pid)
wt, out = f"/tmp/wt-{name}", f"/tmp/out-{name}"
print(f"""You are working on the pure-Python library matthewwardrop/spec-classes (a dataclass-like decorator that generates type-checked, copy-on-write with_/transform_/without_ helper methods, plus KeyedList/KeyedSet containers and spec_property/Alias descriptors).

Your private scratch copy is the git worktree {wt} (work ONLY there and in {out}; never read or touch /repo or /verif). Run Python as `cd {wt} && PYTHONPATH={wt} /venv/bin/python ...` (check `spec_classes.__file__` starts with {wt}). The test suite is `cd {wt} && PYTHONPATH={wt} /venv/bin/python -m pytest -q -p no:cacheprovider` and currently passes (152 tests). There is no network. Do NOT modify the library. Never use `git stash` (it is shared between worktrees).

A semantic property this library is supposed to satisfy:

TITLE: {p['title']}
STATEMENT: {p['statement']}
QUANTIFIED OVER: {p['quantifier']['text']}
CODE ANCHORS: files {p['anchors']['files']}; mechanisms {[m['name'] + ' @ ' + m['where'] for m in p['anchors']['mechanism']]}

TASK: find inputs on which the library, AS IT IS in the worktree, violates this property. Read the anchored code carefully and look for corner cases inside the quantified domain: unusual but legal class shapes (subclassing combinations, lazy vs eager bootstrap, keys, preparers, invalidated_by, init=False, default factories, hooks such as __post_init__/__post_copy__), unusual argument forms and flag combinations, falsy / equal-but-different-type / duplicate values, negative and out-of-range indices, operations from non-initial states, failure paths (callbacks that raise), re-entrancy, and thread interleavings where the property mentions them. Try things out by running small programs - do not report anything you have not reproduced.

For every DISTINCT genuine violation (different mechanism, not the same bug through a different helper) write {out}/finding<i>.py: a small standalone program (run as `PYTHONPATH=<tree> /venv/bin/python finding<i>.py`) that states in a docstring which sentence of the property is violated and why the input is inside the quantified domain, and that exits 0 if the library behaves as the property demands and non-zero (assertion naming the expectation) as the library behaves today. Also write {out}/finding<i>.json: {{"property": "{pid}", "summary": "...", "mechanism": "file:function and what goes wrong", "suggested_fix": "..."}}.
Be strict about what counts: behaviour the property text leaves open, behaviour outside the quantified domain, or direct mutation the property excludes is NOT a finding. Quality over quantity: up to 4 findings. (The library has already been searched and repaired twice for this property: expect the obvious corners to be clean and dig deeper - interactions between features, less common call forms, state left behind by failed or unusual operations.) If after a thorough search (at least a dozen distinct corner-case experiments) you find nothing, say so and list briefly what you tried. Finish with a short report.""")
