#!/usr/bin/env python3
"""Print the prompt for a mutant-writing sub-agent: property text + scratch worktree only (nothing from /verif)."""
import json, sys
pid, name, n = sys.argv[1], sys.argv[2], int(sys.argv[3]) if len(sys.argv) > 3 else 3
p = next(json.loads(l) for l in open('/verif/properties.jsonl') if json.loads(l)['id'] == pid)
wt, out = f"/tmp/wt-{name}", f"/tmp/out-{name}"
print(f"""You are working on the pure-Python library matthewwardrop/spec-classes (a dataclass-like decorator that generates type-checked, copy-on-write with_/transform_/without_ helper methods, plus KeyedList/KeyedSet containers and spec_property/Alias descriptors).

Your private scratch copy is the git worktree {wt} (work ONLY there and in {out}; never read or touch /repo or /verif). Run Python as `cd {wt} && PYTHONPATH={wt} /venv/bin/python ...` (check `spec_classes.__file__` starts with {wt}). The test suite is `cd {wt} && PYTHONPATH={wt} /venv/bin/python -m pytest -q -p no:cacheprovider` and currently passes (152 tests). There is no network.

A semantic property this library is supposed to satisfy:

TITLE: {p['title']}
STATEMENT: {p['statement']}
QUANTIFIED OVER: {p['quantifier']['text']}
WHY THE EXISTING TESTS CANNOT SETTLE IT: {p['why_tests_cant']}
CODE ANCHORS: files {p['anchors']['files']}; mechanisms {[m['name'] + ' @ ' + m['where'] for m in p['anchors']['mechanism']]}

TASK: write {n} DIFFERENT, independent, realistic code changes ("mutants") to files under {wt}/spec_classes/ such that each one, applied alone to the clean worktree:
  (a) still imports and passes the ENTIRE existing test suite, unedited (all 152 tests);
  (b) makes the library violate the property above;
  (c) needs something specific to manifest - e.g. a particular multi-step sequence of operations, an unusual input or argument position, a negative/out-of-range index, a failure at a particular point, a particular option combination, a particular thread interleaving, or two cooperating sites that each look fine alone - NOT something ordinary first use would expose at once;
  (d) looks like a plausible regression a maintainer could introduce (a refactor, an optimisation, a dropped guard, a wrong branch) - not sabotage like `if x == 42`.
Prefer mutants that differ from each other in mechanism and in the code site they touch. Small diffs are best.

For mutant i (i = 1..{n}) produce in {out}/:
  - mutant{{i}}.diff  : `git diff` of the change against the clean worktree (must apply with `git apply` in a clean checkout);
  - demo{{i}}.py      : a small standalone program (run as `PYTHONPATH=<tree> /venv/bin/python demo{{i}}.py`) that exits 0 on the clean tree and exits non-zero (failed assertion that states the violated expectation) with mutant i applied;
  - meta{{i}}.json    : {{"property": "{pid}", "summary": "...what was changed...", "needs": "...what is required for the violation to manifest...", "files": [...]}}
Verify each yourself: clean tree -> demo passes; apply diff -> full test suite still passes AND demo fails; then `git checkout -- .` to restore the clean tree before the next mutant. Never use `git stash` (the stash is shared between worktrees and other people work in sibling worktrees); save work with `git diff > file` instead. Leave the worktree clean at the end. Finish with a short report listing, per mutant, the changed site, why tests still pass, and what triggers the violation. If you cannot make one satisfy (a), drop it and try a different idea rather than editing tests.""")
