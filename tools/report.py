#!/usr/bin/env python3
"""Emit the markdown tables for DESIGN.md §8 from seeded/*/meta.json and known-findings.txt."""
import glob, json, os
ROOT = os.path.dirname(os.path.dirname(os.path.abspath(__file__)))
rows = []
for d in sorted(glob.glob(os.path.join(ROOT, "seeded", "*"))):
    m = json.load(open(os.path.join(d, "meta.json")))
    sid = os.path.basename(d)
    runs = m.get("checks_run", {})
    det = [k for k, v in runs.items() if v.get("exit") == 1]
    miss = [k for k, v in runs.items() if v.get("exit") != 1]
    first = next((v.get("first", "") for v in runs.values() if v.get("exit") == 1), "")
    mon = first.split(":")[0].replace("monitor=", "") if first else ""
    rows.append((sid, m.get("breaks"), (m.get("summary") or "")[:110].replace("|", "/"), (m.get("needs") or "")[:90].replace("|", "/"), ", ".join(det) or "-", mon))
import sys
out = ["| seeded change | breaks | what was changed | needs | caught by | monitor |", "|---|---|---|---|---|---|"]
for r in rows:
    out.append("| " + " | ".join(str(x) for x in r) + " |")
out.append(f"\n{len(rows)} seeded changes, {sum(1 for r in rows if r[4] != '-')} caught by a check of the property they break (quick tier unless noted).")
text = "\n".join(out)
if "--write" in sys.argv:
    p = os.path.join(ROOT, "DESIGN.md")
    s = open(p).read()
    b, e = "<!-- seeded-table:begin (tools/report.py --write) -->", "<!-- seeded-table:end -->"
    i, j = s.index(b) + len(b), s.index(e)
    open(p, "w").write(s[:i] + "\n" + text + "\n" + s[j:])
    print(f"DESIGN.md updated: {len(rows)} rows")
else:
    print(text)
