#!/usr/bin/env python3
"""Emit the markdown tables for DESIGN.md §8 from seeded/*/meta.json and known-findings.txt."""
import glob, json, os
ROOT = os.path.dirname(os.path.dirname(os.path.abspath(__file__)))
rows = []
for d in sorted(glob.glob(os.path.join(ROOT, "seeded", "*"))):
    m = json.load(open(os.path.join(d, "meta.json")))
    sid = os.path.basename(d)
    runs = m.get("checks_run", {})
    det = [k for k, v in runs.items() if v.get("exit") == 1]
    miss = [k for k, v in runs.items() if v.get("exit") != 1]
    first = next((v.get("first", "") for v in runs.values() if v.get("exit") == 1), "")
    mon = first.split(":")[0].replace("monitor=", "") if first else ""
    rows.append((sid, m.get("breaks"), (m.get("summary") or "")[:110].replace("|", "/"), (m.get("needs") or "")[:90].replace("|", "/"), ", ".join(det) or "-", mon))
print("| seeded change | breaks | what was changed | needs | caught by | monitor |")
print("|---|---|---|---|---|---|")
for r in rows:
    print("| " + " | ".join(str(x) for x in r) + " |")
print(f"\n{len(rows)} seeded changes, {sum(1 for r in rows if r[4] != '-')} caught by the quick tier of the property they break.")
