#!/bin/bash
# usage: tools/prefix.sh <check> <commit> [<commit>...]  -> runs the quick check against a scratch copy of /repo HEAD with the given fix commits reverse-applied
set -e
chk=$1; shift
wt=/tmp/wt-prefix-$$
git -C /repo worktree add -q $wt HEAD
cp /repo/spec_classes/_version.py $wt/spec_classes/_version.py
for c in "$@"; do git -C /repo show $c -- spec_classes | git -C $wt apply -R -3 - >/dev/null 2>&1 || { echo "cannot revert $c cleanly"; git -C /repo worktree remove --force $wt; exit 3; }; done
git -C $wt reset -q
VERIF_REPO=$wt VERIF_SUMMARY=1 /venv/bin/python -m vlib.check $chk --tier quick --no-evidence 2>&1 | grep -A1 "VIOLATION\|held on\|INCONCLUSIVE" | head -8 | cut -c1-330
git -C /repo worktree remove --force $wt
