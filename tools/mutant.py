#!/usr/bin/env python3
"""
Validate a sub-agent's mutant and run checks against it.

  tools/mutant.py verify <outname> <i> <prop> [more props...]   # verify in scratch worktree, store under seeded/, run quick checks
  tools/mutant.py run <seeded-id> [--tier quick|thorough] [props...]  # re-run checks against a stored mutant

/repo is only ever touched by `git apply` + `git checkout -- .` (never committed).
"""

import json
import os
import shutil
import subprocess
import sys
import time

ROOT = os.path.dirname(os.path.dirname(os.path.abspath(__file__)))
PY = "/venv/bin/python"


def sh(cmd, cwd=None, env=None, timeout=3600):
    e = dict(os.environ)
    e.update(env or {})
    p = subprocess.run(cmd, cwd=cwd, env=e, shell=isinstance(cmd, str), capture_output=True, text=True, timeout=timeout)
    return p.returncode, p.stdout + p.stderr


def repo_clean():
    rc, out = sh("git -C /repo status --porcelain")
    return out.strip() == ""


def verify(outname, i, props):
    wt, out = f"/tmp/wt-{outname}", f"/tmp/out-{outname}"
    diff, demo, meta = f"{out}/mutant{i}.diff", f"{out}/demo{i}.py", f"{out}/meta{i}.json"
    env = {"PYTHONPATH": wt, "PYTHONDONTWRITEBYTECODE": "1"}
    sh("git checkout -- .", cwd=wt)
    rc0, o0 = sh([PY, demo], cwd=wt, env=env)
    rca, oa = sh(["git", "apply", diff], cwd=wt)
    if rca != 0:
        print(f"patch does not apply in worktree: {oa}")
        return None
    rct, ot = sh([PY, "-m", "pytest", "-q", "-p", "no:cacheprovider", "-x"], cwd=wt, env=env)
    rc1, o1 = sh([PY, demo], cwd=wt, env=env)
    sh("git checkout -- .", cwd=wt)
    tests_line = ot.strip().splitlines()[-1] if ot.strip() else ""
    ok = rc0 == 0 and rct == 0 and rc1 != 0 and "152 passed" in tests_line
    print(f"[{outname}#{i}] demo clean rc={rc0}; tests with mutant: {tests_line!r}; demo with mutant rc={rc1} -> {'VALID' if ok else 'INVALID'}")
    if not ok:
        print(o0[-500:], o1[-800:])
        return None
    sid = f"{props[0]}-{outname}-{i}"
    sdir = os.path.join(ROOT, "seeded", sid)
    os.makedirs(sdir, exist_ok=True)
    shutil.copy(diff, os.path.join(sdir, "patch.diff"))
    shutil.copy(demo, os.path.join(sdir, "demo.py"))
    m = json.load(open(meta)) if os.path.exists(meta) else {}
    m.update(
        {
            "breaks": props[0],
            "origin": "independent sub-agent given only the property text and a scratch worktree",
            "verified": {
                "demo_on_clean_tree_rc": rc0,
                "tests_with_mutant": tests_line,
                "demo_with_mutant_rc": rc1,
                "demo_failure_tail": o1.strip().splitlines()[-1] if o1.strip() else "",
                "how": "scratch worktree: demo on clean tree, git apply, full pytest, demo again, git checkout",
            },
        }
    )
    json.dump(m, open(os.path.join(sdir, "meta.json"), "w"), indent=1)
    return sid


def run(sid, props, tier="quick"):
    sdir = os.path.join(ROOT, "seeded", sid)
    assert repo_clean(), "/repo has uncommitted changes"
    rc, o = sh(["git", "-C", "/repo", "apply", os.path.join(sdir, "patch.diff")])
    if rc != 0:
        rc, o = sh(["git", "-C", "/repo", "apply", "-3", os.path.join(sdir, "patch.diff")])
    if rc != 0:
        print(f"[{sid}] patch does not apply to /repo: {o}")
        sh("git -C /repo reset -q")
        sh("git -C /repo checkout HEAD -- .")
        return {}
    results = {}
    try:
        for prop in props:
            t0 = time.time()
            rc, o = sh([PY, "-m", "vlib.check", prop, "--tier", tier, "--no-evidence"], cwd=ROOT, timeout=7200)
            first = next((l for l in o.splitlines() if l.startswith("    monitor=")), "")
            nviol = sum(1 for l in o.splitlines() if l.startswith("VIOLATION"))
            results[f"{prop}:{tier}"] = {"exit": rc, "violation_lines": nviol, "first": first.strip()[:300], "wall_s": round(time.time() - t0, 1)}
            print(f"[{sid}] {prop} {tier}: exit={rc} violations={nviol} {first.strip()[:200]}")
            if rc not in (0, 1):
                print(o[-1500:])
    finally:
        sh("git -C /repo reset -q")
        sh("git -C /repo checkout HEAD -- .")
        assert repo_clean()
    mp = os.path.join(sdir, "meta.json")
    m = json.load(open(mp))
    m.setdefault("checks_run", {}).update(results)
    json.dump(m, open(mp, "w"), indent=1)
    return results


def reverify(sid):
    """Re-validate a stored mutant against the current /repo HEAD in a throw-away worktree."""
    sdir = os.path.join(ROOT, "seeded", sid)
    wt = f"/tmp/wt-reverify-{os.getpid()}"
    sh(f"git -C /repo worktree add -q {wt} HEAD")
    try:
        shutil.copy("/repo/spec_classes/_version.py", f"{wt}/spec_classes/_version.py")
        env = {"PYTHONPATH": wt, "PYTHONDONTWRITEBYTECODE": "1"}
        rc0, o0 = sh([PY, os.path.join(sdir, "demo.py")], cwd=wt, env=env)
        rca, oa = sh(["git", "apply", os.path.join(sdir, "patch.diff")], cwd=wt)
        rebased = False
        if rca != 0:
            # the code around the change has moved (repairs in /repo): try a 3-way application; if it is clean, the
            # stored patch is refreshed from its result, otherwise the patch needs a rebase by hand
            sh("git checkout HEAD -- . && git reset -q", cwd=wt)
            rc3, o3 = sh(["git", "apply", "-3", os.path.join(sdir, "patch.diff")], cwd=wt)
            unmerged = sh("git diff --name-only --diff-filter=U", cwd=wt)[1].strip()
            if rc3 == 0 and not unmerged:
                sh("git reset -q", cwd=wt)
                newpatch = sh("git diff HEAD -- spec_classes", cwd=wt)[1]
                if newpatch.strip():
                    rca, oa, rebased = 0, o3, True
            else:
                sh("git checkout HEAD -- . ; git reset -q", cwd=wt)
        rct, ot = sh([PY, "-m", "pytest", "-q", "-p", "no:cacheprovider", "-x"], cwd=wt, env=env)
        rc1, o1 = sh([PY, os.path.join(sdir, "demo.py")], cwd=wt, env=env)
        tests_line = ot.strip().splitlines()[-1] if ot.strip() else ""
        ok = rc0 == 0 and rca == 0 and rct == 0 and rc1 != 0
        print(f"[{sid}] on HEAD {sh('git -C /repo log --format=%h -1')[1].strip()}: demo clean rc={rc0}, apply rc={rca}, tests {tests_line!r}, demo with mutant rc={rc1} -> {'VALID' if ok else 'INVALID'}")
        if not ok:
            print(oa[-300:], o0[-300:], o1[-300:])
        elif rebased:
            open(os.path.join(sdir, "patch.diff"), "w").write(newpatch)
            print(f"[{sid}] patch refreshed from a clean 3-way application")
        m = json.load(open(os.path.join(sdir, "meta.json")))
        m.setdefault("reverified", []).append({"head": sh("git -C /repo log --format=%h -1")[1].strip(), "valid": ok, "tests": tests_line, "demo_clean_rc": rc0, "demo_mutant_rc": rc1})
        json.dump(m, open(os.path.join(sdir, "meta.json"), "w"), indent=1)
        return ok
    finally:
        sh(f"git -C /repo worktree remove --force {wt}")


def main():
    cmd = sys.argv[1]
    if cmd == "reverify":
        for sid in sys.argv[2:] or sorted(os.listdir(os.path.join(ROOT, "seeded"))):
            reverify(sid)
        return
    if cmd == "verify":
        outname, i, props = sys.argv[2], sys.argv[3], sys.argv[4:]
        sid = verify(outname, i, props)
        if sid:
            run(sid, props)
    elif cmd == "run":
        sid = sys.argv[2]
        rest = sys.argv[3:]
        tier = "quick"
        if "--tier" in rest:
            k = rest.index("--tier")
            tier = rest[k + 1]
            rest = rest[:k] + rest[k + 2 :]
        m = json.load(open(os.path.join(ROOT, "seeded", sid, "meta.json")))
        run(sid, rest or [m["breaks"]], tier)
    elif cmd == "runall":
        tier = sys.argv[2] if len(sys.argv) > 2 else "quick"
        for sid in sorted(os.listdir(os.path.join(ROOT, "seeded"))):
            m = json.load(open(os.path.join(ROOT, "seeded", sid, "meta.json")))
            run(sid, [m["breaks"]], tier)


if __name__ == "__main__":
    main()
