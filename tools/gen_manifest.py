#!/usr/bin/env python3
"""Regenerate /verif/MANIFEST.json from the table below (keeps it valid at all times)."""

import json
import os

ROOT = os.path.dirname(os.path.dirname(os.path.abspath(__file__)))
PY = "/venv/bin/python"

# property -> (category, technique, text, note, design_ref)
CHECKS = {
    "C15": (
        "exploration",
        "differential runtime oracle: real check_type vs independent reference checker over generated (annotation, value) pairs",
        "Every generated (annotation, value) pair is executed against the real check_type and compared with an independently "
        "written reference checker driven by the harness's own type terms; annotations are enumerated exhaustively to depth 2 "
        "over the constructor alphabet and sampled at depth 3, values are aimed at each structural position. Held = no "
        "disagreement and no exception on the pairs observed; sampling, not proof.",
        "Trusted: vlib/refcheck.py as the reading of the documented semantics; Fraction and Type[non-class] are out of the judged language (NaN is judged against bounded types only).",
        "DESIGN.md §3 C15",
    ),
}

CHECKS["C13"] = (
    "exploration",
    "history + executable reference model (plain list + key function) compared on the full public view after every operation",
    "Operation sequences on real KeyedLists are run in lock-step with a plain-list model; after every operation the complete "
    "public view (list, len, keys/items, l[k], get, index_for_key, l[i] for every i in [-len-1,len], membership, index/count, "
    "slices, ==) plus _list/_dict coherence is compared, raising operations must raise the documented family and leave the view "
    "unchanged. All start containers (<=3 items of a 3-key x 2-payload universe) x all operations/arguments are enumerated to "
    "sequence length 1 (quick) / 2 (thorough), with seeded-random 30-operation histories beyond, over 8 item universes.",
    "Trusted: the model in checks/c13.py; typed-ness of derived containers is not judged; keys()/items() are judged as sequences in list order, also through views taken earlier.",
    "DESIGN.md §3 C13",
)
CHECKS["C14"] = (
    "exploration",
    "history + executable reference model (dict key -> latest item, set algebra on keys) compared on the full public view after every operation",
    "Operation sequences on real KeyedSets (6 universes x both enforce_item_equivalence settings) are run in lock-step with a "
    "dict model; after every operation len/items/keys/membership/lookup by every item and key are compared; results of |,&,-,^ "
    "and their in-place forms against KeyedSet and built-in set operands are checked on keys and must still answer by key with "
    "the same key function and flag. Exhaustive over all start sets x all operations to length 2 (strided in quick), random beyond. Directed: comparisons (<=, <, >=, >, ==, !=) of KeyedSets of unhashable / hashable items with built-in sets of bare keys must answer with a bool (totality only).",
    "Trusted: the model in checks/c14.py; cases where by-key and by-item readings of a built-in set operand differ, and flag+unequal-payload operands, are UNSPECIFIED and counted.",
    "DESIGN.md §3 C14",
)

CHECKS["C12"] = (
    "exploration",
    "explicit state-machine reference model run in lock-step with the real descriptors over exhaustively enumerated access sequences",
    "Every sequence (quick: length<=4 / 3, thorough: <=6 / 4) over {read, assign v1, assign v2, assign bad-type, delete, bump, poison "
    "underlying state} is executed on a fresh real instance for all 16 spec_property option combinations x 4 hosts (plain, spec "
    "unmanaged, spec managed, managed+preparer), and over (read via class, read/assign/delete via instance) x {Base, Mid, Leaf} for "
    "all 32 classproperty combinations; the value or exception class of every access and the slot / underlying state after it are "
    "compared with the state machine. Exhaustive within those bounds; nothing is claimed beyond them.",
    "Trusted: the state machine in checks/c12.py (a successful deletion ends the cache epoch also with a custom deleter); custom setter/deleter bodies are harness code.",
    "DESIGN.md §3 C12",
)

CHECKS["C18"] = (
    "exploration",
    "two-variable (target, local override) reference model run in lock-step with real Alias/DeprecatedAlias descriptors over exhaustively enumerated operation sequences",
    "All 160 configurations (Alias/DeprecatedAlias x passthrough x transform x fallback x 5 path shapes x plain/spec host) x all "
    "sequences of length 3 (quick) / 4 (thorough) over read/write/delete of alias and target, deepcopy and (spec hosts) "
    "with_al/reset_al/target helpers/ill-typed writes are executed on fresh real instances; after every operation alias and target "
    "reads are compared with the model, fallback reads must be fresh copies, superseded originals are re-checked at the end "
    "(helpers act on the copy only) and DeprecatedAlias must warn on each alias access. Random longer sequences on top.",
    "Trusted: the model in checks/c18.py. Not judged: AttributeError vs KeyError for a missing item-path target; exactly-one warning on spec hosts (counted).",
    "DESIGN.md §3 C18",
)

CHECKS["C01"] = (
    "exploration",
    "invariant-at-a-hook monitor: deep structural+identity snapshot of receiver and arguments around every copy-on-write helper call on generated classes, with callback-fault and sys.monitoring line-failpoint abort points on replayed states",
    "Generated spec classes (grammar in vlib/classgen.py) are driven through random histories; every judged helper call without "
    "_inplace=True (11 helper kinds x call forms x valid/invalid argument classes) is bracketed by snapshots of the receiver (all "
    "caches saturated, so comparison is strict) and of the freshly built argument objects, whether it returns or raises. For a sample "
    "of calls every user-callback invocation and up to N executed library lines are turned into abort points (state rebuilt by "
    "deterministic replay) and the same comparison is made. Held = no difference on the executions observed.",
    "Trusted: snapshot walker vlib/snap.py; pure transform pool. Limits: statement-start abort points only; frozen and do_not_copy=True classes excluded (C07 / by design).",
    "DESIGN.md §3 C01",
)
CHECKS["C04"] = (
    "fault_enumeration",
    "invariant-at-a-hook monitor with enumerated failures: deep snapshot of receiver, arguments, every other live instance and class-level attributes around every operation that raises; failures = ill-typed value per position, missing target, unknown keyword, raising transform, InjectedFault at every (user callback, i-th invocation)",
    "Every operation of the alphabet (constructor, assignment, deletion, all helpers, in place and copy-on-write) is made to fail in "
    "each enumerated way on states reached by random histories over generated classes; for every raising execution the snapshot of all "
    "pre-existing objects must be identical afterwards. Callback faults are enumerated completely per operation (every invocation seen "
    "in an unarmed run, state rebuilt by replay).",
    "Trusted: snapshot walker; faults fire at callback entry. The constructor's half-built instance is not a pre-existing object.",
    "DESIGN.md §3 C04",
)

CHECKS["C03"] = (
    "exploration",
    "state-invariant monitor: independent reference type checker applied to every stored managed attribute of every live instance after every operation, plus single-fault oracle (one non-conforming slot, conforming twin confirmed on a replayed state)",
    "Generated spec classes are driven through histories that use every mutation route with conforming and non-conforming values "
    "aimed at each slot (value, element, dict key, dict value, nested attribute, container family); after every operation every "
    "managed attribute stored in every live instance (recursively through nested spec instances, containers and keyed containers) is "
    "checked by vlib/refcheck.py against the harness's own type terms. Operations whose conforming twin succeeds are re-issued with "
    "exactly one slot made non-conforming and must raise TypeError/ValueError or leave a conforming state. Directed: non-conforming "
    "defaults restored by del/reset/invalidation; closed and open bounded floats as attribute, list element and dict value x 18 routes x "
    "{NaN, +-inf, just outside} judged by the bound written as plain comparisons; fixed-length and variadic tuple annotations x 12 routes "
    "x {too short, too long, permuted, ill-typed, list for tuple}.",
    "Trusted: reference checker and type terms in vlib/classgen.py. Direct mutation of contained containers is out of scope.",
    "DESIGN.md §3 C03",
)

CHECKS["C02"] = (
    "exploration",
    "identity-graph monitor (mutable nodes of result vs receiver, minus objects reachable from the call's arguments and do_not_copy values) plus differential monitor (in-place mutations of one side must not change the snapshot of the other)",
    "For every non-raising copy-on-write helper call (all 11 kinds/forms, fresh arguments, pure deep-copying transforms) and deepcopy on "
    "generated classes, the sets of mutable objects reachable from result and receiver are intersected; anything shared must come from "
    "the call's own arguments or a do_not_copy attribute, and untouched do_not_copy attributes must be identical objects. Then 1-4 "
    "in-place changes (API operations and direct mutation of nested containers / nested spec instances) are applied to the result and "
    "the receiver's snapshot must not move, and vice versa.",
    "Trusted: vlib/snap.py graph walk. do_not_copy=True classes and frozen classes are outside the judged receivers; do_not_copy x subclassing is judged with the inheritance rule of classgen.dnc_status (an explicit list that leaves out an attribute inherited as do_not_copy is UNSPECIFIED). What receiver and copy *read* for attributes neither stores (class-level values) is compared as well.",
    "DESIGN.md §3 C02",
)

CHECKS["C08"] = (
    "exploration",
    "isolation monitor (snapshot of class-level attributes, every constructor argument object and all peer instances around each in-place mutation) plus reset-freshness oracle (attribute after reset/del compared with a freshly constructed instance, object identity checked against defaults and peers)",
    "Histories over generated classes mix construction, in-place API mutation, direct mutation of nested containers and nested spec "
    "instances, reset_<a>, reset and del; around every mutation the snapshot of all class-level defaults, of every object ever passed "
    "to a constructor and of every other live instance must not move; after every reset/deletion the attribute must equal what a "
    "fresh instance of the same class holds, be a fresh object and be missing iff there is no default. All nine ways of declaring a "
    "default (literal, Attr, factory, field, field factory, none, spec re-declare, spec re-default, plain override) are gated.",
    "Trusted: snapshot walker; a fresh instance as the reference for defaults. do_not_copy attributes are excluded from the generated histories (copies share them by declaration); that independently constructed instances do not share their default is judged by directed cases.",
    "DESIGN.md §3 C08",
)

CHECKS["C07"] = (
    "exploration",
    "immutability monitor (snapshot of every live frozen instance around every operation) + rejection oracle for in-place attempts + twin differential (same module materialised frozen and non-frozen, same operations, results compared)",
    "Generated modules are materialised twice (as declared frozen - directly, via a spec subclass, via a plain subclass, or with a "
    "frozen nested Leaf class - and with the frozen flags removed). Every public operation is run on the frozen world with a snapshot "
    "of every frozen instance before and after (must be identical); in-place attempts must raise FrozenInstanceError whenever the twin "
    "would have changed state; every other operation must give the same outcome class and alpha-equal result/receiver state as the "
    "non-frozen twin, the frozen result being a distinct object.",
    "Trusted: snapshot walker and alpha abstraction; deepcopy(frozen) may return the same object.",
    "DESIGN.md §3 C07",
)

CHECKS["C05"] = (
    "exploration",
    "history + executable reference model of the documented scalar/top-level helper semantics, plus relational twin monitors on deterministically replayed states (copy vs in-place, assignment vs with_, update vs chained with_, nested keywords vs constructed value, del vs reset, transform vs with_(f(old)), no-op forms)",
    "On states reached by random histories over generated classes, every scalar/top-level helper form is judged either against the "
    "model (addressed attribute = prepared new value, collections normalised, nested keywords built/merged, invalidated_by dependants "
    "back at default, everything else untouched) or by running two documented-equivalent formulations on two replayed copies of the same "
    "state and comparing outcome class, resulting state and result identity. Directed: constant whole-value transforms; multi-change "
    "calls (transform/update, top-level and nested keyword forms) on a chain of invalidated_by attributes must equal the single-attribute "
    "helpers applied in keyword order, for every ordered selection of 2-3 names, copy and in place, eager and lazy; the preparer applied on "
    "every storing route is the _prepare_<a> of the receiver's class (overridden by a plain/decorated subclass, or inherited).",
    "Trusted: the model in checks/c05.py (pure idempotent preparers); replay determinism. UNSPECIFIED forms (DESIGN.md §4) are counted, not judged.",
    "DESIGN.md §3 C05",
)

CHECKS["C06"] = (
    "exploration",
    "history + executable reference model: the plain Python list/dict/set operation (ordered-unique list / key->item dict for keyed containers) applied to the abstract content before the call, compared with the attribute content after every element helper",
    "Exhaustive part: every List[int] content over {0,1,2} up to length 3, every Set[int]/Set[str] subset of a 3-element universe "
    "(falsy members included) and every Dict[str,int] over keys {'', 'a', 'b'} x every element helper x every addressing mode and "
    "index in [-len-1, len+1] x in-place/copy. Random part: histories over generated classes with list/dict/set/KeyedList/KeyedSet "
    "attributes of scalar, spec and keyed-spec elements. After each call the attribute content must equal the model (order included), "
    "all other attributes must be untouched, a missing target must raise IndexError/KeyError/ValueError. Every KeyedList result must also enumerate the identical elements through keys()/l[k] and items() in iteration order.",
    "Trusted: the container model in checks/c06.py. UNSPECIFIED cases are counted, not judged.",
    "DESIGN.md §3 C06",
)

CHECKS["C20"] = (
    "exploration",
    "quiescent-point invariant monitor on copyreg.dispatch_table (baseline taken before the library copies anything) over copying histories, sys.monitoring line failpoints as abort points, and a deterministic sys.monitoring thread scheduler (cooperative locks) enumerating preemptions on every line of the copy-protection code",
    "Monitor 1: after every operation of hand-written module-bearing workloads (nesting depth 1-3) and grammar-generated histories, "
    "under three table preconditions (clean, user entry for a user class, user entry for ModuleType), the dispatch table must hold "
    "exactly the baseline entries and the protection bookkeeping must be idle. Monitor 2: the same after aborting each operation at "
    "executed library lines. Monitor 3: 2 and 3 real threads deep-copying module-bearing values run under a baton-passing scheduler: "
    "all single preemptions at every executed line of utils/mutation.py, all (thorough) or sampled (quick) double preemptions, and "
    "PCT-style random priorities; every thread must succeed and the table must equal the baseline afterwards.",
    "Trusted: the scheduler only preempts at statement starts (any schedule it produces is real; schedules inside a statement are not explored). "
    "with-statement lines are not used as abort points. Open known finding: an abort at the first statements of __exit__ (before the release has begun). The stack-exhaustion op runs on the library's own __enter__/__exit__ and a real lock (harness wrappers cost frames).",
    "DESIGN.md §3 C20",
)

CHECKS["C19"] = (
    "exploration",
    "deterministic thread scheduler on sys.monitoring LINE events (baton passing, cooperative replacement of the library's RLocks) enumerating preemptions of concurrent first uses of lazily decorated classes; per-schedule comparison of every thread outcome and of a canonical class description with the eager sequential reference",
    "For each source (grammar-generated modules and hand-written shapes: __new__ defined/inherited, lazily bootstrapped parent, lazily "
    "bootstrapped nested type) a fresh lazily decorated copy is exec-ed per schedule and 2 or 3 real threads perform first uses "
    "(instantiate, __spec_class__, dataclasses.fields, instantiate subclass, nested use). Schedules: each thread first without "
    "preemption, single preemptions of the first thread at every executed library line (thorough) or a stratified sample (quick), "
    "double preemptions over first occurrences of distinct lines, PCT-style random priorities. Every thread outcome and the canonical "
    "description (metadata, attribute specs, factory results, method names + signatures, class-level defaults, fresh instance "
    "repr/state, helper result) of every class must equal the bootstrap=True sequential reference; exceptions, deadlocks and "
    "half-built classes are violations.",
    "Trusted: scheduler (statement-start preemption only). Timeouts of the watchdog make the run INCONCLUSIVE, never held.",
    "DESIGN.md §3 C19",
)

CHECKS["C10"] = (
    "exploration",
    "reference-comparison monitor over generated instance pools (verdict computed from the harness's construction record, not from the instances) for ==, !=, symmetry, transitivity, deepcopy and re-construction, plus a bracket/quote-aware scan of every repr",
    "Classes with 3-6 attributes in every drawn ordering of the kinds {int, str, list, nested spec, bound method of the instance, "
    "function, class, module, Any} with random compare/repr flags (lazy or eager, spec subclass and plain subclass). For each class: a "
    "base instance, every one-attribute variant (other value / missing) at every position, random instances; all pairs are compared "
    "with the reference verdict, triples for transitivity, sub/superclass pairs for symmetry only; deepcopy(x) == x and "
    "type(x)(**attrs) == x; repr of every instance incl. self references, cycles, empty and long values must not raise and must name "
    "exactly the repr-enabled attributes in declaration order at depth 0.",
    "Trusted: the reference verdict (bound methods equal iff same function and receivers that stand for each other: each operand's own method, the same or equal objects).",
    "DESIGN.md §3 C10",
)

CHECKS["C11"] = (
    "exploration",
    "invalidation reference model (slot states empty/cached/override + dependency closure from the generated declaration) run in lock-step; every derived value of every live instance is read after every operation and compared with the getter formula evaluated by the harness on raw state; getter invocations counted through a probe",
    "All combinations of (p cache, p invalidated_by in {[a],[b],[a,b],[c],[u unmanaged],['*']}, q cache, q invalidated_by in "
    "{[p],[a],[p,b],['*']}, b plain or invalidated_by=[a], cache filled in __post_init__, lazy/eager) plus a spec subclass adding a "
    "dependant attribute and a dependant cached property, driven by histories interleaving reads, overrides, deletions and every "
    "mutation entry point (assignment, del, with_/transform_/reset_ helpers, element helpers, update/transform/reset; in place and "
    "on the returned copy; failing variants). Stale values, lost overrides/caches after unrelated or failed mutations, and "
    "invalidated_by attributes not back at their default are violations.",
    "Trusted: the model in checks/c11.py; wildcard graphs that form a cycle through property slots are excluded (what '*' covers there is undocumented).",
    "DESIGN.md §3 C11",
)

CHECKS["C17"] = (
    "exploration",
    "spy monitor at the wrapper/implementation boundary (the compiled wrapper's __globals__['implementation'] is replaced by a recording spy) compared with inspect.signature of every generated method",
    "For every generated method of every class of seeded modules (constructor, 3 top-level, 4 scalar and 4 element helpers per "
    "attribute; init=False attributes, keys, overflow attribute, subclasses): every advertised parameter alone and in (sampled) pairs "
    "must be accepted and reach the spy as the very object given; positional-or-keyword parameters also positionally, keyword-only "
    "ones rejected positionally; omitted real parameters must arrive as the advertised default and no virtual keyword may be invented; "
    "every unadvertised name must raise TypeError before the implementation is invoked; the nested-attribute keywords must equal the "
    "init-enabled attributes of the nested spec class per the harness's own declaration.",
    "Trusted: the spy hook (harness-side monkeypatch of the wrapper's namespace). Defaults shown for virtual keywords are not compared.",
    "DESIGN.md §3 C17",
)

CHECKS["C16"] = (
    "exploration",
    "class-__dict__ snapshot monitor (before decoration, after bootstrap, after first use of every generated name through class and instance) compared with an independent naming model; behavioural probe of every user-occupied member",
    "For seeded small classes (selection by annotations / attrs / attrs_typed / attrs_skip, init/repr/eq switches, lazy or eager, base "
    "class or subclass of a spec class) the unoccupied class and, for (a sample of / all) generated method names, the variants "
    "defining that name in the class body as function / staticmethod / classmethod / property / plain value are decorated. Every name "
    "present before decoration must map to the identical object at both later stages (managed Attr/Field declarations consumed), the "
    "occupied member must still behave as written, the set of added names must equal the model (4 scalar helpers per owned attribute, "
    "4 element helpers per collection under the table singular, top-level helpers, dunders per switches, aliases) minus occupied ones. "
    "Directed cases: attrs with private names -> ValueError; child/children and num/nums collisions -> <attr>_item; two collections "
    "with one natural singular that is no attribute (both orders) -> distinct item names, each helper set editing its own attribute; "
    "double collision -> RuntimeError.",
    "Trusted: naming model and singular table in checks/c16.py. __new__ (lazy residue) and a created __annotations__ are tolerated. More than one singular-name collision per class through multiple inheritance is not judged.",
    "DESIGN.md §3 C16",
)

CHECKS["C09"] = (
    "exploration",
    "constructor reference model (default resolution over the declared MRO, ownership-directed initialisation, hand-written parent constructors with call log) compared with the state of every freshly constructed instance",
    "Hierarchies of depth <= 3 are generated (one or two spec parents with generated or hand-written constructors of the documented "
    "shape, init=False attributes, key with/without default, a child that re-declares / re-defaults / adds attributes with optional "
    "overflow attribute and __post_init__, an optional plain or spec grandchild). For every class and every subset of init-enabled "
    "keywords (exhaustive up to 5 attributes), plus one non-conforming keyword, unknown keywords, key positional/keyword/missing: the "
    "instance state, the arguments each hand-written parent constructor received, the overflow dict and the __post_init__ count and "
    "timing must equal the model; rejections must be TypeError (ValueError allowed for ill-typed values).",
    "Trusted: the model in checks/c09.py. Not judged: value of init=False attributes, a bare declaration in the nearer of two parents shadowing the other parent's default. Diamonds, keyed parents whose key is an optional / required / no constructor parameter are directed cases.",
    "DESIGN.md §3 C09",
)

NOT_YET = {}


def main():
    props = [json.loads(l) for l in open(os.path.join(ROOT, "properties.jsonl"))]
    checks = []
    for p in props:
        pid = p["id"]
        if pid not in CHECKS:
            continue
        cat, tech, text, note, ref = CHECKS[pid]
        checks.append(
            {
                "property_id": pid,
                "quick_cmd": f"{PY} -m vlib.check {pid} --tier quick",
                "thorough_cmd": f"{PY} -m vlib.check {pid} --tier thorough",
                "evidence_file": f"evidence/{pid}.json",
                "replay_cmd_template": f"{PY} -m vlib.check {pid} --replay {{path}}",
                "engine": "vlib",
                "level_claimed": {"category": cat, "text": text, "design_ref": ref},
                "level_note": note,
                "technique": tech,
            }
        )
    not_applicable = [
        {
            "property_id": p["id"],
            "reason": NOT_YET.get(p["id"], "not claimed yet: the runtime monitor for this property is still under construction (see DESIGN.md §3)"),
        }
        for p in props
        if p["id"] not in CHECKS
    ]
    manifest = {
        "version": 1,
        "setup_cmd": f"{PY} -m vlib.setup",
        "hooks": {
            "guard": "SPEC_CLASSES_VERIF",
            "enable": "no source hooks: monitors attach from outside (sys.monitoring, harness-side wrappers); checks export SPEC_CLASSES_VERIF=1 for uniformity",
            "baseline_off_cmd": "cd /repo && env -u SPEC_CLASSES_VERIF /venv/bin/python -m pytest -ra -q -p no:cacheprovider --timeout=900 --continue-on-collection-errors",
            "source_commits": [],
            "add_only": True,
        },
        "engines": [
            {
                "name": "vlib",
                "path": "vlib/",
                "serves_properties": [c["property_id"] for c in checks],
                "kind_free_text": "runtime monitoring harness: generated workloads against the real library, reference-model and snapshot oracles, "
                "callback/line fault injection and a sys.monitoring thread scheduler; sharded over subprocess workers",
            }
        ],
        "checks": checks,
        "notes": "Verdicts are three-valued: exit 0 held-on-observed, exit 1 VIOLATION, exit 2 INCONCLUSIVE (gate counter zero, worker died, watchdog). "
        "Known findings: known-findings.txt (open lines have matchers in vlib/findings.py).",
        "not_applicable": not_applicable,
    }
    with open(os.path.join(ROOT, "MANIFEST.json"), "w") as f:
        json.dump(manifest, f, indent=1)
        f.write("\n")
    print(f"MANIFEST.json: {len(checks)} checks, {len(not_applicable)} not_applicable")


if __name__ == "__main__":
    main()
