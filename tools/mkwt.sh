#!/bin/bash
# usage: tools/mkwt.sh <name>  -> scratch worktree /tmp/wt-<name> of /repo HEAD (+ generated _version.py), output dir /tmp/out-<name>
set -e
n=$1
git -C /repo worktree add -q /tmp/wt-$n HEAD
cp /repo/spec_classes/_version.py /tmp/wt-$n/spec_classes/_version.py
mkdir -p /tmp/out-$n
cd /tmp/wt-$n && PYTHONPATH=/tmp/wt-$n /venv/bin/python -c "import spec_classes,sys; assert spec_classes.__file__.startswith('/tmp/wt-$n/'), spec_classes.__file__"
echo "/tmp/wt-$n ready"
