"""
C13 - KeyedList is a list with unique keys and a coherent key index.

Monitor: history + executable reference model. The model is a plain Python
list plus the universe's key function. After *every* operation the complete
public view of the real container (list(l), len, keys(), items(), l[k], get,
index_for_key, l[i] for all i in [-len-1, len], membership by item and key,
index/count, slices, ==) is compared with the model; an operation must raise
iff the model says so, with an exception of the documented family, and after a
raise the view must be unchanged.
"""

from __future__ import annotations

import itertools

from vlib.core import safe_repr

PROP = "C13"
LEVEL = "exploration"
EVAL_COUNTER = "ops_judged"
GATES = ["ops_judged", "ops_raised_expected", "ops_ok", "views_compared", "dup_key_rejections", "type_rejections", "negative_index_writes", "constructions_judged", "construction_rejections_expected", "keyfaults_judged", "iteration_under_mutation_cases"]
RULE = (
    "operation sequences over KeyedLists built from item universes of k keys x p payloads (self-keyed strings/ints, "
    "tuples and unhashable lists with key function it[0], keyed spec items, int-keyed items, typed KeyedList[T,K]); "
    "exhaustive over all start containers and all operations/arguments (indices in [-len-1,len+1]) up to the tier's "
    "sequence length, seeded-random sequences up to 30 operations beyond; a case is distinct by "
    "(universe, start length, operation kind, argument class, outcome class) and non-trivial when the operation "
    "mutates, raises or builds a derived container"
)
ASSUMPTIONS = [
    "reference model: plain list + key function (written from the property statement and the documented isinstance(int)=index rule)",
    "typed-ness (KeyedList[T,K] parameters) of derived containers (+, slices) is not judged; their key function is",
    "keys() / items() are judged as sequences in list order (since repair of the key index order)",
]
EXHAUSTIVE = {"quick": False, "thorough": False}

MISSING_KEY = "__absent__"


# --------------------------------------------------------------------------
# universes
# --------------------------------------------------------------------------


class Universe:
    def __init__(self, name):
        from spec_classes import spec_class
        from spec_classes.types import KeyedList

        self.name = name
        self.KeyedList = KeyedList
        self.keyfn = None  # what is passed to the constructor
        self.typed = None
        self.bad = []  # (tag, factory, expected family)
        if name == "selfstr":
            self.specs = ["a", "b", "", "d"]
            self.make = lambda s: s
            self.kf = lambda it: it
            self.absent_key = "zz"
        elif name == "selfint":
            self.specs = [1, 0, 3, 7]
            self.make = lambda s: s
            self.kf = lambda it: it
            self.absent_key = 99
        elif name in ("tuple", "typed_tuple"):
            self.specs = [(k, p) for k in "abc" for p in (0, 1)]
            self.make = lambda s: (s[0], s[1])
            self.kf = lambda it: it[0]
            self.keyfn = lambda it: it[0]
            self.absent_key = "zz"
            if name == "typed_tuple":
                self.typed = (tuple, str)
                # (the last one carries the key of a legitimate item: as a replacement of that item it is not a duplicate, only ill-typed)
                self.bad = [("wrong_key_type", lambda: (5, 0), "type"), ("wrong_item_type", lambda: ["q", 0], "type"), ("wrong_item_type_existing_key", lambda: ["a", 0], "type")]
        elif name == "listitems":
            self.specs = [(k, p) for k in "abc" for p in (0, 1)]
            self.make = lambda s: [s[0], s[1]]
            self.kf = lambda it: it[0]
            self.keyfn = lambda it: it[0]
            self.absent_key = "zz"
        elif name == "intkey":
            self.specs = [(k, p) for k in (1, 2, 3) for p in ("p", "q")]
            self.make = lambda s: (s[0], s[1])
            self.kf = lambda it: it[0]
            self.keyfn = lambda it: it[0]
            self.absent_key = 99
        elif name in ("spec", "typed_spec"):

            @spec_class(key="k", bootstrap=True)
            class KLeaf:
                k: str
                v: int = 0

            @spec_class(key="k", bootstrap=True)
            class IntLeaf:
                k: int
                v: int = 0

            self.KLeaf = KLeaf
            self.specs = [(k, p) for k in "abc" for p in (0, 1)]
            self.make = lambda s: KLeaf(s[0], v=s[1])
            self.kf = lambda it: it.k
            self.absent_key = "zz"
            if name == "typed_spec":
                self.typed = (KLeaf, str)

                @spec_class(key="k", bootstrap=True)
                class OtherLeaf:  # same shape and key type as the item class, but not an instance of it
                    k: str
                    v: int = 0

                self.bad = [("wrong_item_type", lambda: "plainstr", "type"), ("wrong_item_type2", lambda: IntLeaf(4), "type"), ("wrong_item_type_existing_key", lambda: OtherLeaf("a"), "type")]
        else:
            raise ValueError(name)
        self.keys = []
        for s in self.specs:
            k = self.kf(self.make(s))
            if k not in self.keys:
                self.keys.append(k)

    def new_container(self, items):
        cls = self.KeyedList[self.typed] if self.typed else self.KeyedList
        return cls(list(items), key=self.keyfn) if self.keyfn else cls(list(items))

    def int_addressed(self, key):
        return isinstance(key, int)


UNIVERSES = ["selfstr", "selfint", "tuple", "listitems", "intkey", "spec", "typed_tuple", "typed_spec"]


# --------------------------------------------------------------------------
# reference model
# --------------------------------------------------------------------------


class Raise(Exception):
    def __init__(self, family):
        self.family = family


FAMILIES = {
    "index": (IndexError,),
    "key": (KeyError,),
    "value": (ValueError,),
    "missing": (IndexError, KeyError, ValueError),
    "dup": (ValueError,),
    "type": (TypeError,),
    "type_or_dup": (TypeError, ValueError),
    "unsupported": (Exception,),
}


def m_find_key(L, kf, key):
    for i, it in enumerate(L):
        if kf(it) == key:
            return i
    raise Raise("key")


def m_check_new(U, L, x, bad_family, replacing=None):
    """Raise what inserting x into L (optionally replacing index `replacing`) must raise."""
    if bad_family:
        try:
            k = U.kf(x)
        except Exception:
            k = None
        if k is not None and any(i != replacing and U.kf(it) == k for i, it in enumerate(L)):
            raise Raise("type_or_dup")  # wrong type *and* a duplicate key: either rejection will do
        raise Raise(bad_family)
    k = U.kf(x)
    for i, it in enumerate(L):
        if i != replacing and U.kf(it) == k:
            raise Raise("dup")


def m_norm_index(L, i):
    n = len(L)
    if i < -n or i >= n:
        raise Raise("index")
    return i % n if n else i


def model_apply(U, L, op, args):
    """Apply op to the plain list L in place; return the expected result or raise Raise(family)."""
    kf = U.kf
    name = op
    if name == "setidx":
        i, (x, badfam) = args
        j = m_norm_index(L, i)
        m_check_new(U, L, x, badfam, replacing=j)
        L[j] = x
        return None
    if name == "setkey":
        key, (x, badfam) = args
        j = m_norm_index(L, key) if U.int_addressed(key) else m_find_key(L, kf, key)
        m_check_new(U, L, x, badfam, replacing=j)
        L[j] = x
        return None
    if name == "delidx":
        (i,) = args
        j = m_norm_index(L, i)
        del L[j]
        return None
    if name == "delkey":
        (key,) = args
        j = m_norm_index(L, key) if U.int_addressed(key) else m_find_key(L, kf, key)
        del L[j]
        return None
    if name == "insert":
        i, (x, badfam) = args
        m_check_new(U, L, x, badfam)
        L.insert(i, x)
        return None
    if name == "append":
        ((x, badfam),) = args
        m_check_new(U, L, x, badfam)
        L.append(x)
        return None
    if name in ("extend", "iadd"):
        (xs,) = args
        tmp = list(L)
        for x, badfam in xs:
            m_check_new(U, tmp, x, badfam)
            tmp.append(x)
        L[:] = tmp
        return None
    if name == "extend_self":
        if L:
            raise Raise("dup")
        return None
    if name == "pop":
        (i,) = args
        if i is None:
            if not L:
                raise Raise("index")
            return ("item", L.pop())
        j = m_norm_index(L, i)
        return ("item", L.pop(j))
    if name == "remove":
        ((x, _),) = args
        for i, it in enumerate(L):
            if it is x or it == x:
                del L[i]
                return None
        raise Raise("value")
    if name == "reverse":
        L.reverse()
        return None
    if name == "clear":
        L.clear()
        return None
    if name in ("add", "radd"):
        (xs,) = args
        tmp = list(L) if name == "add" else []
        seq = [x for x, _ in xs] if name == "add" else [x for x, _ in xs] + list(L)
        fams = {id(x): f for x, f in xs}
        for x in seq:
            m_check_new(U, tmp, x, fams.get(id(x)))
            tmp.append(x)
        return ("derived", tmp)
    if name in ("setslice", "delslice"):
        raise Raise("unsupported")
    if name == "getslice":
        (sl,) = args
        return ("derived", L[slice(*sl)])
    raise ValueError(name)


def real_apply(U, l, op, args):
    if op == "setidx":
        l[args[0]] = args[1][0]
    elif op == "setkey":
        l[args[0]] = args[1][0]
    elif op == "delidx":
        del l[args[0]]
    elif op == "delkey":
        del l[args[0]]
    elif op == "insert":
        l.insert(args[0], args[1][0])
    elif op == "append":
        l.append(args[0][0])
    elif op == "extend":
        l.extend([x for x, _ in args[0]])
    elif op == "iadd":
        l2 = l
        l2 += [x for x, _ in args[0]]
        if l2 is not l:
            return ("rebound", l2)
    elif op == "extend_self":
        l.extend(l)
    elif op == "pop":
        return ("item", l.pop() if args[0] is None else l.pop(args[0]))
    elif op == "remove":
        l.remove(args[0][0])
    elif op == "reverse":
        l.reverse()
    elif op == "clear":
        l.clear()
    elif op == "add":
        return ("derived", l + [x for x, _ in args[0]])
    elif op == "radd":
        return ("derived", [x for x, _ in args[0]] + l)
    elif op == "setslice":
        l[args[0][0] : args[0][1]] = [x for x, _ in args[1]]
    elif op == "delslice":
        del l[args[0][0] : args[0][1]]
    elif op == "getslice":
        return ("derived", l[slice(*args[0])])
    else:
        raise ValueError(op)
    return None


# --------------------------------------------------------------------------
# views
# --------------------------------------------------------------------------


def obs(fn):
    try:
        return ("ok", fn())
    except BaseException as e:  # noqa
        return ("exc", type(e))


def same_obs(real, model, by_identity=False):
    """real: ('ok', v)|('exc', type); model: ('ok', v)|('exc', family)."""
    if model[0] == "exc":
        return real[0] == "exc" and issubclass(real[1], FAMILIES[model[1]])
    if real[0] != "ok":
        return False
    if by_identity:
        return real[1] is model[1]
    return real[1] == model[1]


def ids(seq):
    return [id(x) for x in seq]


_RETAINED = {}  # id(container) -> (container, keys() view, items() view) taken when the container was first looked at


def retained_views(l):
    ent = _RETAINED.get(id(l))
    if ent is None or ent[0] is not l:
        if len(_RETAINED) > 16:
            _RETAINED.clear()
        try:
            ent = _RETAINED[id(l)] = (l, l.keys(), l.items())
        except Exception:
            return None
    return ent


def compare_view(U, l, L, probes, check_derived_of=None):
    """Return list of (observation name, real, model) mismatches."""
    kf = U.kf
    bad = []

    def chk(name, real, model, by_identity=False):
        if not same_obs(real, model, by_identity):
            bad.append((name, _fmt(real), _fmt(model)))

    chk("ids(list(l))", obs(lambda: ids(list(l))), ("ok", ids(L)))
    chk("len(l)", obs(lambda: len(l)), ("ok", len(L)))
    chk("list(iter)", obs(lambda: ids([x for x in l])), ("ok", ids(L)))
    mk = {}
    for it in L:
        mk[kf(it)] = it
    chk("set(l.keys())", obs(lambda: set(l.keys())), ("ok", set(mk)))
    chk("items()", obs(lambda: {k: id(v) for k, v in l.items()}), ("ok", {k: id(v) for k, v in mk.items()}))
    chk("len(keys())", obs(lambda: len(l.keys())), ("ok", len(mk)))
    # keys() / items() enumerate the items in list order ("agrees with a linear scan of the list")
    chk("list(l.keys())", obs(lambda: list(l.keys())), ("ok", [kf(it) for it in L]))
    chk("list(l.items())", obs(lambda: [(k, id(v)) for k, v in l.items()]), ("ok", [(kf(it), id(it)) for it in L]))
    # ... also through views handed out earlier (taken the first time this container was looked at)
    ent = retained_views(l)
    if ent is not None:
        chk("list(<keys() view taken earlier>)", obs(lambda: list(ent[1])), ("ok", [kf(it) for it in L]))
        chk("list(<items() view taken earlier>)", obs(lambda: [(k, id(v)) for k, v in ent[2]]), ("ok", [(kf(it), id(it)) for it in L]))
    chk("l == list", obs(lambda: l == list(L)), ("ok", True))
    n = len(L)
    for key in probes["keys"]:
        present = key in mk
        if U.int_addressed(key):
            # documented rule: int arguments address by position
            chk(f"l[{key!r}] (int=index)", obs(lambda: l[key]), ("ok", L[key]) if -n <= key < n else ("exc", "index"), True)
        else:
            chk(f"l[{key!r}]", obs(lambda: l[key]), ("ok", mk[key]) if present else ("exc", "key"), True)
        chk(f"get({key!r})", obs(lambda: l.get(key)), ("ok", mk.get(key)), True)
        chk(
            f"index_for_key({key!r})",
            obs(lambda: l.index_for_key(key)),
            ("ok", next(i for i, it in enumerate(L) if kf(it) == key)) if present else ("exc", "key"),
        )
        chk(f"{key!r} in l (key)", obs(lambda: key in l), ("ok", present or any(it == key for it in L)))
    for i in range(-n - 1, n + 1):
        if U.name in ("selfint", "intkey") and False:
            continue
        chk(f"l[{i}]", obs(lambda: l[i]), ("ok", L[i]) if -n <= i < n else ("exc", "index"), True)
    for it in probes["items"]:
        m_in = any(x is it or x == it for x in L) or (_hashable(it) and it in mk)
        chk(f"{safe_repr(it, 30)} in l", obs(lambda: it in l), ("ok", m_in))
        chk(f"count({safe_repr(it, 30)})", obs(lambda: l.count(it)), ("ok", sum(1 for x in L if x is it or x == it)))
        try:
            mi = ("ok", next(i for i, x in enumerate(L) if x is it or x == it))
        except StopIteration:
            mi = ("exc", "value")
        chk(f"index({safe_repr(it, 30)})", obs(lambda: l.index(it)), mi)
    for sl in ((None, None, None), (1, None, None), (None, -1, None), (None, None, -1), (1, 3, None)):
        s = slice(*sl)
        r = obs(lambda: l[s])
        if r[0] != "ok":
            bad.append((f"l[{s}]", _fmt(r), "slice of list"))
            continue
        d = r[1]
        chk(f"ids(l[{sl}])", obs(lambda: ids(list(d))), ("ok", ids(L[s])))
        chk(f"type(l[{sl}])", ("ok", isinstance(d, U.KeyedList)), ("ok", True))
        chk(f"keys(l[{sl}])", obs(lambda: set(d.keys())), ("ok", {kf(x) for x in L[s]}))
    # internal coherence (auxiliary, sharper diagnosis)
    try:
        internal = {k: id(v) for k, v in l._dict.items()}
        scan = {kf(x): id(x) for x in l._list}
        if internal != scan or len(l._list) != len(l._dict):
            bad.append(("internal _dict vs scan of _list", str(internal), str(scan)))
    except AttributeError:
        pass
    return bad


def check_derived(U, d, expected_items):
    """A derived container (+, radd, slice) must be a KeyedList over the same items, keyed like its source."""
    bad = []
    if not isinstance(d, U.KeyedList):
        return [("type(derived)", type(d).__name__, "KeyedList")]
    if ids(list(d)) != ids(expected_items):
        bad.append(("ids(list(derived))", str([safe_repr(x, 20) for x in d]), str([safe_repr(x, 20) for x in expected_items])))
        return bad
    exp_keys = {U.kf(x) for x in expected_items}
    r = obs(lambda: set(d.keys()))
    if r != ("ok", exp_keys):
        bad.append(("set(derived.keys())", _fmt(r), str(exp_keys)))
    # the derived container must still enforce key uniqueness under the same key function
    if expected_items:
        first = expected_items[0]
        spec = None
        for s in U.specs:
            cand = U.make(s)
            if U.kf(cand) == U.kf(first) and not (cand == first):
                spec = cand
                break
        if spec is not None:
            r = obs(lambda: d.append(spec))
            if not (r[0] == "exc" and issubclass(r[1], ValueError)):
                bad.append(("derived.append(item with existing key)", _fmt(r), "ValueError"))
                try:
                    d.pop()
                except Exception:
                    pass
    return bad


def _hashable(x):
    try:
        hash(x)
        return True
    except TypeError:
        return False


def _fmt(o):
    if o[0] == "exc":
        return f"raises {o[1].__name__ if isinstance(o[1], type) else o[1]}"
    return safe_repr(o[1], 80)


# --------------------------------------------------------------------------
# op enumeration
# --------------------------------------------------------------------------


def candidates(U):
    """(tag, spec-or-factory) for every argument item: universe items + bad items."""
    out = [(f"item{i}", ("spec", s)) for i, s in enumerate(U.specs)]
    out += [(f"bad:{tag}", ("bad", j)) for j, (tag, _f, _fam) in enumerate(U.bad)]
    return out


def materialise(U, cand):
    kind, v = cand
    if kind == "spec":
        return (U.make(v), None)
    tag, factory, fam = U.bad[v]
    return (factory(), fam)


def all_ops(U, n, pair_limit=None, rng=None):
    """Every operation/argument combination for a container of length n (as data)."""
    cands = [c for _t, c in candidates(U)]
    idx = list(range(-n - 1, n + 2))
    keys = list(U.keys) + [U.absent_key]
    ops = []
    for i in idx:
        for c in cands:
            ops.append(("setidx", (i, c)))
            ops.append(("insert", (i, c)))
        ops.append(("delidx", (i,)))
        ops.append(("pop", (i,)))
    ops.append(("pop", (None,)))
    for k in keys:
        for c in cands:
            ops.append(("setkey", (k, c)))
        ops.append(("delkey", (k,)))
    for c in cands:
        ops.append(("append", (c,)))
        ops.append(("remove", (c,)))
    pairs = [(a, b) for a in cands for b in cands]
    if pair_limit is not None and len(pairs) > pair_limit:
        pairs = (rng or __import__("random").Random(0)).sample(pairs, pair_limit)
    for a, b in pairs:
        ops.append(("extend", ([a, b],)))
        ops.append(("iadd", ([a, b],)))
        if a[0] == "spec" and b[0] == "spec":  # typed-ness of derived containers is not judged
            ops.append(("add", ([a, b],)))
            ops.append(("radd", ([a, b],)))
    for c in cands:
        ops.append(("extend", ([c],)))
        if c[0] == "spec":
            ops.append(("add", ([c],)))
    ops += [("extend", ([],)), ("add", ([],)), ("reverse", ()), ("clear", ()), ("extend_self", ())]
    ops += [("setslice", ((0, 1), [cands[0]])), ("delslice", ((0, 1),)), ("setslice", ((0, 0), [])), ("delslice", ((0, 0),))]
    return ops


def random_op(U, n, rng):
    cands = [c for _t, c in candidates(U)]
    kind = rng.choice(
        ["setidx", "setidx", "setkey", "delidx", "delkey", "insert", "insert", "append", "append", "extend", "iadd", "pop",
         "remove", "reverse", "clear", "add", "radd", "setslice", "delslice", "extend_self"]
    )
    i = rng.randint(-n - 1, n + 1)
    k = rng.choice(list(U.keys) + [U.absent_key])
    c = rng.choice(cands)
    if kind in ("setidx", "insert"):
        return (kind, (i, c))
    if kind == "setkey":
        return (kind, (k, c))
    if kind == "delidx":
        return (kind, (i,))
    if kind == "delkey":
        return (kind, (k,))
    if kind in ("append", "remove"):
        return (kind, (c,))
    if kind in ("extend", "iadd"):
        return (kind, ([rng.choice(cands) for _ in range(rng.randint(0, 3))],))
    if kind in ("add", "radd"):
        good = [c_ for c_ in cands if c_[0] == "spec"]
        return (kind, ([rng.choice(good) for _ in range(rng.randint(0, 3))],))
    if kind == "pop":
        return (kind, (rng.choice([None, i]),))
    if kind == "setslice":
        return (kind, ((0, rng.randint(0, 2)), [c]))
    if kind == "delslice":
        return (kind, ((0, rng.randint(0, 2)),))
    return (kind, ())


def bind(U, op):
    """Turn op-as-data into op with live argument objects (fresh per execution)."""
    name, args = op
    out = []
    for a in args:
        if isinstance(a, tuple) and len(a) == 2 and a[0] in ("spec", "bad"):
            out.append(materialise(U, a))
        elif isinstance(a, list):
            out.append([materialise(U, c) for c in a])
        else:
            out.append(a)
    return name, tuple(out)


def arg_class(U, n, op):
    name, args = op
    parts = []
    for a in args:
        if isinstance(a, tuple) and len(a) == 2 and a[0] in ("spec", "bad"):
            parts.append("bad" if a[0] == "bad" else "item")
        elif isinstance(a, list):
            parts.append(f"seq{len(a)}" + ("+bad" if any(c[0] == "bad" for c in a) else ""))
        elif isinstance(a, int) and name in ("setidx", "insert", "delidx", "pop"):
            parts.append("neg_oob" if a < -n else "neg" if a < 0 else "oob" if a >= n else "idx")
        elif a is None:
            parts.append("none")
        else:
            parts.append("key" if a != U.absent_key else "absent_key")
    return ",".join(parts)


def start_containers(U, max_len):
    """All duplicate-free item sequences of length <= max_len (as spec tuples)."""
    out = [()]
    for n in range(1, max_len + 1):
        for combo in itertools.permutations(range(len(U.specs)), n):
            ks = [U.kf(U.make(U.specs[i])) for i in combo]
            if len(set(ks)) == len(ks):
                out.append(combo)
    return out


# --------------------------------------------------------------------------
# execution of one judged step
# --------------------------------------------------------------------------


def judged_step(ctx, U, l, L, op, probes, case):
    """Apply `op` (data) to real container l and model list L; compare; return possibly rebound l."""
    n = len(L)
    name, args = bind(U, op)
    before = list(L)
    try:
        mres = ("ok", model_apply(U, L, name, args))
    except Raise as r:
        mres = ("exc", r.family)
        L[:] = before
    try:
        rres = ("ok", real_apply(U, l, name, args))
    except BaseException as e:  # noqa
        rres = ("exc", type(e), e)
    ctx.count("ops_judged")
    acls = arg_class(U, n, op)
    outcome = mres[1] if mres[0] == "exc" else "ok"
    ctx.sig(U.name, min(n, 4), name, acls, outcome)
    ctx.count("ops_raised_expected" if mres[0] == "exc" else "ops_ok")
    if mres[0] == "exc" and mres[1] == "dup":
        ctx.count("dup_key_rejections")
    if mres[0] == "exc" and mres[1] == "type":
        ctx.count("type_rejections")
    if name == "setidx" and isinstance(args[0], int) and args[0] < 0 and mres[0] == "ok":
        ctx.count("negative_index_writes")
    feats = {"universe": U.name, "op": name, "args": acls, "expected": outcome, "len": n}

    def report(monitor, what, **kw):
        ctx.violation(monitor, what, features=dict(feats, **kw), case=case, op=[name, safe_repr(op[1], 120)], start=[safe_repr(x, 30) for x in before])

    if mres[0] == "exc":
        if rres[0] != "exc":
            report("raise_expected", f"{U.name}: {name}{safe_repr(op[1], 80)} on {safe_repr(before, 80)} should raise {mres[1]} but returned")
        elif not issubclass(rres[1], FAMILIES[mres[1]]):
            report("raise_family", f"{U.name}: {name}{safe_repr(op[1], 80)} raised {rres[1].__name__}, expected family {mres[1]}", got=rres[1].__name__)
    else:
        if rres[0] == "exc":
            report("unexpected_raise", f"{U.name}: {name}{safe_repr(op[1], 80)} on {safe_repr(before, 80)} raised {rres[1].__name__}: {rres[2]}", got=rres[1].__name__)
        else:
            rv, mv = rres[1], mres[1]
            if rv is not None and rv[0] == "rebound":
                report("iadd_identity", "l += xs rebound l to a different object")
                l = rv[1]
            elif mv is not None and mv[0] == "item":
                if rv is None or rv[1] is not mv[1]:
                    report("result", f"{name} returned {safe_repr(rv, 60)}, model {safe_repr(mv[1], 60)}")
            elif mv is not None and mv[0] == "derived":
                ctx.count("derived_checked")
                if rv is None:
                    report("result", f"{name} returned nothing")
                else:
                    for obsname, r_, m_ in check_derived(U, rv[1], mv[1]):
                        report("derived_container", f"{U.name}: result of {name}{safe_repr(op[1], 80)} on {safe_repr(before, 60)}: {obsname} = {r_}, model {m_}", observation=obsname.split("(")[0])
    mism = compare_view(U, l, L, probes)
    ctx.count("views_compared")
    if mism:
        after_raise = mres[0] == "exc" or rres[0] == "exc"
        obsname, r_, m_ = mism[0]
        report(
            "view_after_raise" if after_raise else "view_vs_model",
            f"{U.name}: after {name}{safe_repr(op[1], 80)} on {safe_repr(before, 80)}"
            f"{' (raised)' if after_raise else ''}: {obsname} = {r_}, model {m_} (+{len(mism) - 1} more)",
            observation=obsname.split("(")[0],
            after_raise=after_raise,
        )
        # resynchronise the model with whatever the container holds now so later steps are judged on their own
        try:
            L[:] = list(l._list)
        except Exception:
            L[:] = list(l)
    return l


def make_probes(U):
    return {"keys": list(U.keys) + [U.absent_key], "items": [U.make(s) for s in U.specs[:4]]}


def judge_constructions(ctx, U, probes):
    """
    Building a KeyedList from a sequence inserts the items one after the other: every sequence of <= 3 universe items
    (repetitions and duplicate keys included; ill-typed items for typed lists) through the constructor.
    """
    from spec_classes.errors import BaseTypeError  # what a typed container's constructor raises on Python >= 3.11

    idx = list(range(len(U.specs)))
    seqs = [()] + [(i,) for i in idx] + list(itertools.product(idx, repeat=2)) + [c for c in itertools.product(idx, repeat=3) if len({U.kf(U.make(U.specs[i])) for i in c}) < 3]
    cases = [("specs", c) for c in seqs]
    for j in range(len(U.bad)):
        cases += [("bad_first", (j,)), ("bad_last", (j,))]
    for kind, c in cases:
        case = [U.name, "construct", kind, list(c)]
        if kind == "specs":
            pairs = [(U.make(U.specs[i]), None) for i in c]
        else:
            bad, fam = U.bad[c[0]][1](), U.bad[c[0]][2]
            pairs = [(bad, fam)] if kind == "bad_first" else [(U.make(U.specs[0]), None), (bad, fam)]
        L, expect = [], None
        try:
            for x, fam in pairs:
                m_check_new(U, L, x, fam)
                L.append(x)
        except Raise as r:
            expect = r.family
        ctx.count("constructions_judged")
        items = [x for x, _f in pairs]
        label = f"{U.name}: {'KeyedList[...]' if U.typed else 'KeyedList'}({safe_repr(items, 80)})"
        feats = {"universe": U.name, "op": "construct", "arg": kind, "expect": expect or "ok", "n": len(items)}
        try:
            l = U.new_container(items)
            got = None
        except (Exception, BaseTypeError) as e:  # noqa
            l, got = None, e
        if expect is not None:
            ctx.count("construction_rejections_expected")
            want = FAMILIES[expect] + ((BaseTypeError,) if "type" in expect else ())
            if got is None:
                ctx.violation("raise_expected", f"{label} should raise {expect} but built {safe_repr(list(l), 80)}", features=feats, case=case)
            elif not isinstance(got, want):
                ctx.violation("raise_expected", f"{label} raised {type(got).__name__}: {got}; expected one of {[w.__name__ for w in want]}", features=feats, case=case)
            continue
        if got is not None:
            ctx.violation("unexpected_raise", f"{label} raised {type(got).__name__}: {safe_repr(got, 100)}", features=feats, case=case)
            continue
        bad = compare_view(U, l, L, probes)
        if bad:
            ctx.violation("view_vs_model", f"{label}: {bad[0][0]} = {bad[0][1]}, plain list gives {bad[0][2]} (+{len(bad) - 1} more)", features=feats, case=case)
        ctx.sig("construct", U.name, kind, len(items))


class KeyFault(Exception):
    pass


class FaultyKey:
    """The container's key function, made to raise at its n-th invocation (user code may fail at any call)."""

    def __init__(self, fn):
        self.fn, self.count, self.arm, self.fired = fn, 0, None, False

    def __call__(self, item):
        i = self.count
        self.count += 1
        if self.arm is not None and i == self.arm:
            self.arm, self.fired = None, True
            raise KeyFault(f"key function failed at invocation #{i}")
        return self.fn(item)


def run_keyfaults(ctx, U, probes, params):
    """
    "An operation that raises leaves the container exactly as it was" - with the failure coming from the key function:
    every mutating operation from every start container of <= max_len items, the key function raising at each of the
    invocations the operation makes.
    """
    fk = FaultyKey(U.kf)
    U.keyfn = fk
    starts = start_containers(U, params["max_len"])
    for si, combo in enumerate(starts):
        ops = all_ops(U, len(combo), pair_limit=params.get("pair_limit", 6), rng=ctx.rng)
        for oi, op in enumerate(ops):
            nm, ar = bind(U, op)
            if nm in ("getslice", "add", "radd"):
                continue  # (derived containers: the receiver is not written to)
            # unarmed run: how often is the key function called?
            items = [U.make(U.specs[i]) for i in combo]
            l = U.new_container(items)
            fk.count, fk.arm, fk.fired = 0, None, False
            try:
                real_apply(U, l, nm, ar)
            except Exception:
                pass
            calls = fk.count
            for k in range(min(calls, 8)):
                items = [U.make(U.specs[i]) for i in combo]
                l = U.new_container(items)
                L = list(items)
                fk.count, fk.arm, fk.fired = 0, k, False
                try:
                    r = real_apply(U, l, nm, ar)
                    surfaced = None
                except KeyFault as e:
                    surfaced = e
                except Exception as e:  # the fault may be turned into another exception
                    surfaced = e if fk.fired else None
                fk.arm = None
                ctx.count("keyfault_runs")
                if not fk.fired or surfaced is None:
                    ctx.count("keyfault_not_surfaced")
                    continue
                ctx.count("ops_judged")
                ctx.count("keyfaults_judged")
                ctx.sig("keyfault", U.name, nm, len(combo), k)
                bad = compare_view(U, l, L, probes)
                if bad:
                    ctx.violation("view_after_raise", f"{U.name}: {nm}{safe_repr(ar, 60)} on {safe_repr(L, 60)} with the key function raising at its invocation #{k} ({type(surfaced).__name__}): "
                                  f"{bad[0][0]} = {bad[0][1]}, before the call {bad[0][2]} (+{len(bad) - 1} more)",
                                  features={"universe": U.name, "op": nm, "failure": "key_function", "invocation": min(k, 2), "n": len(combo)}, case=[U.name, "keyfault", list(combo), oi, k])


def judge_iteration_under_mutation(ctx, U):
    """Forward and reverse iteration interleaved with operations that shrink or grow the container behave as on a plain
    list holding the same items (what is yielded, and how the iteration ends)."""
    items = [U.make(s) for s in U.specs]
    distinct, seen = [], set()
    for it in items:
        if U.kf(it) not in seen:
            seen.add(U.kf(it))
            distinct.append(it)
    distinct = distinct[:4]
    extra = distinct[-1]
    base = distinct[:-1]
    actions = {
        "clear": lambda c: c.clear(),
        "pop": lambda c: c.pop() if len(c) else None,
        "pop0": lambda c: c.pop(0) if len(c) else None,
        "del_last": lambda c: c.__delitem__(-1) if len(c) else None,
        "append_once": lambda c: c.append(extra) if extra not in c else None,
        "nothing": lambda c: None,
    }
    for direction in ("forward", "reverse"):
        for aname, act in actions.items():
            for when in (0, 1):
                ctx.count("ops_judged")
                ctx.count("iteration_under_mutation_cases")

                def drive(c):
                    out = []
                    try:
                        for i, x in enumerate(reversed(c) if direction == "reverse" else iter(c)):
                            out.append(id(x))
                            if i == when:
                                act(c)
                        return ("ok", out, [id(x) for x in c])
                    except Exception as e:
                        return ("exc", type(e).__name__, out)

                want = drive(list(base))
                got = drive(U.new_container(list(base)))
                ctx.sig("iteration_under_mutation", direction, aname, when, want[0])
                if got != want:
                    ctx.violation("view_vs_model", f"{U.name}: {direction} iteration over {len(base)} items with {aname} after element #{when}: "
                                  f"{'raises ' + got[1] if got[0] == 'exc' else 'yields %d item(s), leaves %d' % (len(got[1]), len(got[2]))}; a plain list "
                                  f"{'raises ' + want[1] if want[0] == 'exc' else 'yields %d item(s), leaves %d' % (len(want[1]), len(want[2]))}",
                                  features={"op": "iterate", "direction": direction, "action": aname, "universe": U.name}, case=["iteration", U.name, direction, aname, when])


def run(ctx, params):
    U = Universe(params["universe"])
    rng = ctx.rng
    mode = params["mode"]
    probes = make_probes(U)
    if mode == "keyfaults":
        judge_iteration_under_mutation(ctx, U)
        return run_keyfaults(ctx, U, probes, params)
    if mode == "exh" and params.get("part", 0) == 0 and params["depth"] == 1 or (mode == "exh" and params.get("part", 0) == 0 and params.get("parts")):
        judge_constructions(ctx, U, probes)
    if mode == "exh":
        depth = params["depth"]
        starts = start_containers(U, params["max_len"])
        starts = starts[params.get("part", 0) :: params.get("parts", 1)]
        for si, combo in enumerate(starts):
            n0 = len(combo)
            ops1 = all_ops(U, n0, pair_limit=params.get("pair_limit"), rng=rng)
            for oi, op1 in enumerate(ops1):
                items = [U.make(U.specs[i]) for i in combo]
                l = U.new_container(items)
                L = list(items)
                case = [params["universe"], list(combo), oi]
                if ctx.only_case is not None and ctx.only_case[:3] != case:
                    continue
                l = judged_step(ctx, U, l, L, op1, probes, case)
                if depth >= 2 and oi % params.get("stride2", 1) == 0:
                    # second operation from the state reached by op1 (state rebuilt for every op2)
                    n1 = len(L)
                    ops2 = all_ops(U, n1, pair_limit=params.get("pair_limit2", 6), rng=rng)
                    for oj, op2 in enumerate(ops2):
                        items = [U.make(U.specs[i]) for i in combo]
                        l2 = U.new_container(items)
                        L2 = list(items)
                        nm, ar = bind(U, op1)
                        try:
                            model_apply(U, L2, nm, ar)
                            r = real_apply(U, l2, nm, ar)
                            if r is not None and r[0] == "rebound":
                                l2 = r[1]
                        except (Raise, Exception):
                            break  # op1 raises: state == start state, already covered at depth 1
                        if ids(list(l2)) != ids(L2):
                            break  # op1 already diverged (reported above)
                        judged_step(ctx, U, l2, L2, op2, probes, case + [oj])
            if si % 7 == 0:
                ctx.sample({"universe": U.name, "start": [safe_repr(U.make(U.specs[i]), 30) for i in combo], "ops_enumerated": len(ops1), "example_op": safe_repr(ops1[len(ops1) // 3], 100)}, slot=("exh", n0))
    else:
        for hi in range(params["histories"]):
            n0 = rng.randint(0, min(4, len(U.keys)))
            combo = rng.sample(range(len(U.specs)), len(U.specs))
            items, seen = [], set()
            for i in combo:
                it = U.make(U.specs[i])
                if U.kf(it) not in seen and len(items) < n0:
                    seen.add(U.kf(it))
                    items.append(it)
            l = U.new_container(items)
            L = list(items)
            trace = []
            for step in range(params["length"]):
                op = random_op(U, len(L), rng)
                trace.append(safe_repr(op, 60))
                case = [params["universe"], "rand", hi, step]
                l = judged_step(ctx, U, l, L, op, probes, case)
            if hi % 50 == 0:
                ctx.sample({"universe": U.name, "start": [safe_repr(x, 30) for x in items], "history": trace[:12]}, slot=("rand", U.name))


def plan(tier, seed):
    shards = []
    if tier == "quick":
        for u in UNIVERSES:
            shards.append({"universe": u, "mode": "exh", "depth": 1, "max_len": 3})
            shards.append({"universe": u, "mode": "rand", "histories": 120, "length": 30})
        shards.append({"universe": "tuple", "mode": "keyfaults", "max_len": 2, "pair_limit": 4})
        for u in ("tuple", "spec", "intkey", "selfstr"):
            for part in range(2):
                shards.append({"universe": u, "mode": "exh", "depth": 2, "max_len": 2, "pair_limit": 8, "pair_limit2": 4, "stride2": 3, "part": part, "parts": 2})
    else:
        shards.append({"universe": "tuple", "mode": "keyfaults", "max_len": 3, "pair_limit": 12})
        for u in UNIVERSES:
            for part in range(4):
                shards.append({"universe": u, "mode": "exh", "depth": 2, "max_len": 3, "pair_limit": 20, "pair_limit2": 6, "stride2": 1, "part": part, "parts": 4})
            for k in range(2):
                shards.append({"universe": u, "mode": "rand", "histories": 1500, "length": 30, "k": k})
    return shards
