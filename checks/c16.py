"""
C16 - decoration adds exactly the documented helpers and never replaces user code.

Monitor: class __dict__ snapshots before decoration, after bootstrap and after the first access of every generated
name through class and instance, compared with an independent naming model:
 (a) every name present before decoration maps to the identical object afterwards (Attr/Field declarations are replaced
     by their default, as documented) and the occupied member still behaves as the user wrote it;
 (b) the set of names added equals the model: 4 scalar helpers per managed attribute owned by the class, 4 element helpers
     under the singular name for list/dict/set attributes, update/transform/reset, dunders per init/repr/eq switches,
     the __spec_class_* aliases and bookkeeping names - minus the names the user occupied;
 (c) private attributes are never managed and attrs={'_x'} is rejected;
 (d) a singular-name collision falls back to <attr>_item or raises RuntimeError.
"""

from __future__ import annotations

import dataclasses
import itertools

from vlib import classgen as cg
from vlib.core import safe_repr

PROP = "C16"
LEVEL = "exploration"
EVAL_COUNTER = "decorations_judged"
RULE = (
    "for seeded small classes (2-4 attributes from {int, str, List[int], List[str], Dict[str,int], Set[str], nested spec}, selection "
    "by annotations / attrs / attrs_typed / attrs_skip, init/repr/eq switches, lazy or eager, base class or subclass of a spec "
    "class): the unoccupied class and, for every generated method name, the variants that define that name in the class body as "
    "function / staticmethod / classmethod / property / plain value; plus directed private-attribute and singular-collision cases; "
    "distinct by (selection mode, switches, occupied name kind, occupant kind, lazy, subclass)"
)
ASSUMPTIONS = [
    "independent naming model in this file (singular forms from a fixed table, not from inflect)",
    "user definitions of __getattr__/__setattr__/__delattr__/__deepcopy__ are documented as unsupported and not enumerated",
    "a lazily bootstrapped class may keep a __new__ entry; __annotations__ may be created when absent",
]
OCCUPANTS = ["function", "staticmethod", "classmethod", "property", "value", "value_none", "value_zero", "value_empty"]
FALSY_VALUES = {"value_none": None, "value_zero": 0, "value_empty": ()}
MODES = ["annotations", "attrs", "attrs_typed", "attrs_skip", "mixed_typed_exclusive", "mixed_typed_skip_empty", "mixed_typed_skip_one", "mixed_attrs_exclusive", "mixed_attrs_skip_empty"]
POOL = [("x", "int", None), ("label", "str", None), ("nums", "List[int]", "num"), ("names", "List[str]", "name"), ("weights", "Dict[str, int]", "weight"), ("flags", "Set[str]", "flag"), ("leaf", "Leaf", None)]
ALWAYS = {"update", "transform", "reset", "__spec_class_init__", "__spec_class_repr__", "__spec_class_eq__", "__getattr__", "__setattr__", "__delattr__", "__deepcopy__", "__spec_class__", "__dataclass_fields__"}
TOLERATED = {"__new__", "__annotations__"}


def GATES(tier):
    return [("decorations_judged", 300), ("occupied_variants", 200), ("names_identity_checked", 2000), ("user_member_behaviour_checked", 200), ("private_cases", 2), ("collision_cases", 3), ("unmanaged_key_collision_cases", 2), ("second_order_collision_cases", 2), ("same_singular_collision_cases", 4),
            ("mode:annotations", 10), ("mode:attrs", 10), ("mode:attrs_typed", 10), ("mode:attrs_skip", 10), ("mode:mixed_typed_skip_empty", 5), ("mode:mixed_typed_exclusive", 5), ("mode:mixed_attrs_skip_empty", 5), ("subclass_cases", 10), ("super_delegation_cases", 4)] + [(f"occupant:{o}", 20) for o in OCCUPANTS]


def helper_names(attrs):
    """attrs: [(name, singular or None)] -> generated helper method names."""
    out = []
    for n, sing in attrs:
        out += [f"with_{n}", f"update_{n}", f"transform_{n}", f"reset_{n}"]
        if sing:
            out += [f"with_{sing}", f"update_{sing}", f"transform_{sing}", f"without_{sing}"]
    return out


def occupant_src(name, kind):
    if name == "__init__":
        return "    def __init__(self, *a, **k):\n        object.__setattr__(self, 'user_init_ran', True)\n"
    if name == "__repr__":
        return "    def __repr__(self):\n        return 'user:__repr__'\n"
    if name == "__eq__":
        return "    def __eq__(self, other):\n        return 'user:__eq__'\n"
    if kind == "function":
        return f"    def {name}(self, *a, **k):\n        return 'user:{name}'\n"
    if kind == "staticmethod":
        return f"    @staticmethod\n    def {name}(*a, **k):\n        return 'user:{name}'\n"
    if kind == "classmethod":
        return f"    @classmethod\n    def {name}(cls, *a, **k):\n        return 'user:{name}'\n"
    if kind == "property":
        return f"    @property\n    def {name}(self):\n        return 'user:{name}'\n"
    if kind in FALSY_VALUES:  # a plain value that happens to be falsy still occupies the name
        return f"    {name} = {FALSY_VALUES[kind]!r}\n"
    return f"    {name} = 'user-value:{name}'\n"


HEAD = '''
import dataclasses
from dataclasses import field
from typing import Any, Dict, List, Set
from spec_classes import spec_class, Attr

@spec_class(bootstrap=True)
class Leaf:
    v: int = 0
'''


def build_case(rng, mode, chosen, switches, lazy, subclass, occupied=None, occupant=None):
    """Return (source, class name to decorate, decorator kwargs source, model dict)."""
    body = []
    managed = []  # (name, singular)
    deco = {"bootstrap": not lazy}
    deco.update({k: v for k, v in switches.items() if v is False})
    attr_fields = set()
    combined = mode.startswith("mixed_")  # annotations in the body AND attrs / attrs_typed in the decorator
    n_ann = max(1, len(chosen) // 2) if combined else 0
    for i, (n, ann, sing) in enumerate(chosen):
        style = rng.choice(["plain", "default", "attr", "field"]) if mode != "attrs" else "none"
        default = {"int": "1", "str": "'s'", "List[int]": "[1]", "List[str]": "['a']", "Dict[str, int]": "{'a': 1}", "Set[str]": "{'a'}", "Leaf": "Leaf()"}[ann]
        if mode in ("annotations", "attrs_skip") or (combined and i < n_ann):
            if style == "plain":
                body.append(f"    {n}: {ann}")
            elif style == "default":
                body.append(f"    {n}: {ann} = {default}")
            elif style == "attr":
                body.append(f"    {n}: {ann} = Attr(default={default})")
                attr_fields.add(n)
            else:
                body.append(f"    {n}: {ann} = field(default_factory=lambda: {default})")
                attr_fields.add(n)
            managed.append((n, sing))
        elif mode == "attrs" or (combined and "_attrs_" in mode):
            managed.append((n, None))  # typed Any: no element helpers
        else:  # attrs_typed
            managed.append((n, sing))
    if combined:
        # documented: attrs / attrs_typed *replace* the annotation scan, unless attrs_skip is passed (possibly empty),
        # which makes them incremental on top of the annotated attributes
        rest = chosen[n_ann:]
        if "_attrs_" in mode:
            deco["attrs"] = [n for n, _a, _s in rest]
        else:
            deco["attrs_typed"] = "{" + ", ".join(f"{n!r}: {ann}" for n, ann, _s in rest) + "}"
        annotated = [c[0] for c in chosen[:n_ann]]
        if mode.endswith("_exclusive"):
            managed = [m for m in managed if m[0] not in annotated]
            attr_fields -= set(annotated)
        elif mode.endswith("_skip_empty"):
            deco["attrs_skip"] = rng.choice(["[]", "()", "set()"])
        else:  # _skip_one
            deco["attrs_skip"] = repr([annotated[0]])
            managed = [m for m in managed if m[0] != annotated[0]]
            attr_fields.discard(annotated[0])
    if mode == "attrs":
        deco["attrs"] = [n for n, _a, _s in chosen]
    elif mode == "attrs_typed":
        deco["attrs_typed"] = "{" + ", ".join(f"{n!r}: {ann}" for n, ann, _s in chosen) + "}"
    elif mode == "attrs_skip":
        skipped = chosen[0][0]
        deco["attrs_skip"] = [skipped]
        managed = [m for m in managed if m[0] != skipped]
    body.append("    _private: int = 3")  # annotated but private: never managed
    body.append("    def user_method(self):\n        return 'user:user_method'")
    if occupied:
        body.append(occupant_src(occupied, occupant))
    parent = ""
    src = HEAD
    if subclass:
        src += "\n@spec_class(bootstrap=True)\nclass Base:\n    base_attr: int = 0\n    base_items: List[int] = []\n"
        parent = "(Base)"
    src += f"\nclass T{parent}:\n" + "\n".join(body) + "\n"
    deco_src = ", ".join(f"{k}={v if k == 'attrs_typed' or (combined and k == 'attrs_skip') else repr(v)}" for k, v in deco.items())
    expected = set(ALWAYS) | set(helper_names(managed))
    for d, sw in (("__init__", "init"), ("__repr__", "repr"), ("__eq__", "eq")):
        if switches.get(sw, True):
            expected.add(d)
    return src, deco_src, {"managed": managed, "expected": expected, "attr_fields": attr_fields, "occupied": occupied, "occupant": occupant, "lazy": lazy, "subclass": subclass}


def judge_case(ctx, src, deco_src, model, feats, case):
    from spec_classes import Attr

    mod = cg.exec_module(src, prefix="verif_c16")
    ns = mod.__dict__
    T = ns["T"]
    before = dict(T.__dict__)
    exec(f"T = spec_class({deco_src})(T)", ns)
    T2 = ns["T"]
    ctx.count("decorations_judged")
    label = f"@spec_class({deco_src}) on class with attrs {[m[0] for m in model['managed']]}" + (f", body defines {model['occupied']} as {model['occupant']}" if model["occupied"] else "")

    def report(monitor, what, **kw):
        ctx.violation(monitor, f"{label}: {what}", features=dict(feats, **kw), case=case, source=src[-700:])

    if T2 is not T:
        report("same_class_object", "decoration returned a different class object")
        return
    T.__spec_class__  # trigger bootstrap (no-op when eager)
    after1 = dict(T.__dict__)
    # first access of every generated name through the class and through an instance
    try:
        inst = T() if model["occupied"] != "__init__" else T()
    except Exception as e:
        inst = object.__new__(T)
    for n in sorted(model["expected"]):
        for obj in (T, inst):
            try:
                getattr(obj, n)
            except Exception:
                pass
    after2 = dict(T.__dict__)
    # (a) identity of everything the user wrote
    for name, obj in before.items():
        if name in ("__dict__", "__weakref__"):
            continue
        ctx.count("names_identity_checked")
        for stage, snap_ in (("after bootstrap", after1), ("after first use", after2)):
            if isinstance(obj, (Attr, dataclasses.Field)) and name in {m[0] for m in model["managed"]}:
                if isinstance(snap_.get(name), (Attr, dataclasses.Field)):
                    report("declaration_consumed", f"{name} still holds its Attr/Field declaration {stage}")
                continue
            if name not in snap_:
                report("user_member_kept", f"{name} (defined in the class body) disappeared {stage}", member=_kind(name, model))
                break
            if snap_[name] is not obj:
                report("user_member_kept", f"{name} (defined in the class body as {safe_repr(obj, 50)}) was replaced by {safe_repr(snap_[name], 60)} {stage}", member=_kind(name, model), stage=stage)
                break
    # behaviour of the occupied member
    occ, kind = model["occupied"], model["occupant"]
    if occ:
        ctx.count("user_member_behaviour_checked")
        try:
            if occ == "__init__":
                ok = getattr(T(), "user_init_ran", False) is True
            elif occ == "__repr__":
                ok = repr(inst) == "user:__repr__"
            elif occ == "__eq__":
                ok = (inst == inst) == "user:__eq__"
            elif kind == "function":
                ok = getattr(inst, occ)() == f"user:{occ}"
            elif kind in ("staticmethod", "classmethod"):
                ok = getattr(T, occ)() == f"user:{occ}" and getattr(inst, occ)() == f"user:{occ}"
            elif kind == "property":
                ok = getattr(inst, occ) == f"user:{occ}"
            elif kind in FALSY_VALUES:
                ok = getattr(T, occ) is FALSY_VALUES[kind] or getattr(T, occ) == FALSY_VALUES[kind] and type(getattr(T, occ)) is type(FALSY_VALUES[kind])
            else:
                ok = getattr(T, occ) == f"user-value:{occ}"
        except Exception as e:
            ok = False
            report("user_member_behaves", f"using the user's {occ} raised {type(e).__name__}: {e}", member=_kind(occ, model))
        else:
            if not ok:
                report("user_member_behaves", f"the user's {occ} ({kind}) no longer behaves as written", member=_kind(occ, model))
        # the generated constructor/repr/eq stay reachable under their __spec_class_* names
        for d in ("__init__", "__repr__", "__eq__"):
            if occ == d and not callable(getattr(T, f"__spec_class_{d.strip('_')}__", None)):
                report("alias_reachable", f"__spec_class_{d.strip('_')}__ is not available although {d} is user-defined")
    if inst.user_method() != "user:user_method":
        report("user_member_behaves", "an unrelated user method changed behaviour")
    # (b) exactly the documented names were added
    added = set(after2) - set(before)
    expected_added = set(model["expected"]) - set(before)
    missing = expected_added - added
    extra = added - expected_added - TOLERATED
    if missing:
        report("documented_helpers_added", f"expected generated names are missing: {sorted(missing)}", missing=sorted({_kind(m, model) for m in missing}))
    if extra:
        report("only_documented_helpers_added", f"unexpected names were added to the class: {sorted(extra)}", extra=sorted({_kind(m, model) for m in extra}))
    # (c) the private annotated attribute is not managed
    md = T.__spec_class__
    if "_private" in md.attrs or any(n.endswith("__private") for n in added):
        report("private_never_managed", "the private annotated attribute _private became managed")
    ctx.sig(feats["mode"], feats["switches"], _kind(occ, model) if occ else "-", kind or "-", model["lazy"], model["subclass"])


def _kind(name, model):
    if name is None:
        return None
    if name.startswith("__"):
        return "dunder"
    if name in ("update", "transform", "reset"):
        return "toplevel"
    sings = {s for _n, s in model["managed"] if s}
    verb, _, rest = name.partition("_")
    if rest in sings:
        return f"element:{verb}"
    if rest in {n for n, _s in model["managed"]}:
        return f"scalar:{verb}"
    return "other"


def directed_cases(ctx):
    from spec_classes import spec_class

    # (c) private names cannot be requested
    for bad in (["_x"], ["ok", "_y"]):
        ctx.count("private_cases")
        try:
            spec_class(attrs=bad)
            ctx.violation("private_never_managed", f"spec_class(attrs={bad}) was accepted", features={"case": "attrs_private"}, case=["private", bad])
        except ValueError:
            pass
        except Exception as e:
            ctx.violation("private_never_managed", f"spec_class(attrs={bad}) raised {type(e).__name__} instead of ValueError", features={"case": "attrs_private"}, case=["private", bad])
    # (d) singular collisions
    src = HEAD + '''
class T:
    child: int = 0
    children: List[int] = []
    num: str = "n"
    nums: List[int] = []
'''
    for lazy in (False, True):
        ctx.count("collision_cases")
        ns = cg.exec_module(src, prefix="verif_c16d").__dict__
        T = spec_class(bootstrap=not lazy)(ns["T"])
        T.__spec_class__
        inst = T()
        problems = []
        for plural, sing in (("children", "child"), ("nums", "num")):
            if not hasattr(T, f"with_{plural}_item") or not hasattr(T, f"without_{plural}_item"):
                problems.append(f"no with_{plural}_item / without_{plural}_item fallback")
            try:
                r = getattr(inst, f"with_{sing}")(5 if sing == "child" else "z")
                v = getattr(r, sing)
                if v != (5 if sing == "child" else "z"):
                    problems.append(f"with_{sing} does not set the scalar attribute {sing} (got {v!r})")
            except Exception as e:
                problems.append(f"with_{sing} on the scalar attribute raised {type(e).__name__}: {e}")
            try:
                r = getattr(inst, f"with_{plural}_item")(7)
                if getattr(r, plural)[-1] != 7:
                    problems.append(f"with_{plural}_item does not append to {plural}")
            except Exception as e:
                problems.append(f"with_{plural}_item raised {type(e).__name__}: {e}")
        if problems:
            ctx.violation("singular_collision_fallback", f"child/children + num/nums (lazy={lazy}): {problems}", features={"case": "collision_fallback", "lazy": lazy}, case=["collision", lazy])
    # a subclass overrides a helper generated for its parent and delegates to it through super(): the override must survive use
    src4 = HEAD + '''
@spec_class(bootstrap=BOOT)
class Base:
    x: int = 1
    nums: List[int] = []

@spec_class(bootstrap=BOOT)
class T(Base):
    y: int = 0
    def with_x(self, v, **kw):
        return super().with_x(v + 100, **kw)
    def with_num(self, v, **kw):
        return super().with_num(v + 100, **kw)
    def update(self, *a, **kw):
        return super().update(*a, **kw).with_y(7)

class U(Base):
    def with_x(self, v, **kw):
        return super().with_x(v + 100, **kw)
'''
    for boot in (True, False):
        for cname in ("T", "U"):
            ctx.count("super_delegation_cases")
            ns = cg.exec_module(src4.replace("BOOT", str(boot)), prefix="verif_c16s").__dict__
            cls = ns[cname]
            user = {n: cls.__dict__[n] for n in ("with_x", "with_num", "update") if n in cls.__dict__}
            inst = cls()
            problems = []
            for rnd in (1, 2, 3):
                if inst.with_x(1).x != 101:
                    problems.append(f"call #{rnd} of the user's with_x gave x={inst.with_x(1).x}, expected 101")
                if cname == "T":
                    if inst.with_num(1).nums != [101]:
                        problems.append(f"call #{rnd} of the user's with_num gave {inst.with_num(1).nums}, expected [101]")
                    r = inst.update(x=3)
                    if (r.x, r.y) != (3, 7):
                        problems.append(f"call #{rnd} of the user's update gave x={r.x}, y={r.y}, expected 3, 7")
                for n, f in user.items():
                    if cls.__dict__.get(n) is not f:
                        problems.append(f"after {rnd} call(s) {cname}.__dict__[{n!r}] is no longer the user's function")
                if problems:
                    break
            if problems:
                ctx.violation("user_member_kept", f"{cname}(Base) overriding parent helpers and delegating through super() (bootstrap={boot}): {problems[:3]}", features={"case": "super_delegation", "cls": cname, "lazy": not boot}, case=["super", cname, boot])
    # a child's new scalar attribute collides with the singular of a collection inherited from the parent: the parent must stay as documented
    src5 = HEAD + '''
@spec_class(bootstrap=BOOT)
class Base:
    values: List[int] = []

@spec_class(bootstrap=BOOT)
class T(Base):
    value: int = 0
'''
    for boot in (True, False):
        for first in ("parent_first", "child_first"):
            ctx.count("collision_cases")
            ns = cg.exec_module(src5.replace("BOOT", str(boot)), prefix="verif_c16p").__dict__
            Base, T = ns["Base"], ns["T"]
            try:
                if first == "parent_first":
                    Base().with_value(1)
                t = T()
                b = Base()
                problems = []
                extra = sorted(n for n in Base.__dict__ if n.endswith("_values_item"))
                if extra:
                    problems.append(f"bootstrapping the child added {extra} to the parent")
                if b.with_value(3).values != [3] or b.with_value(3).without_value(3, _by_index=False).values != []:
                    problems.append("the parent's element helper with_value no longer appends to values")
                if t.with_value(4).value != 4:
                    problems.append(f"the child's scalar helper with_value gave value={t.with_value(4).value}")
                if not hasattr(T, "with_values_item") or t.with_values_item(5).values != [5]:
                    problems.append("the child has no with_values_item element helper for the inherited collection (its with_value is now the scalar helper, shadowing the inherited element helper)")
            except RuntimeError:
                problems = []  # refusing the combination is the documented alternative
            except Exception as e:
                problems = [f"{type(e).__name__}: {e}"]
            if problems:
                ctx.violation("singular_collision_fallback", f"inherited values + own value (bootstrap={boot}, {first}): {problems}", features={"case": "collision_child_scalar", "lazy": not boot, "order": first}, case=["collision4", boot, first])
    # collision with an attribute inherited from a parent spec class
    src3 = HEAD + '''
@spec_class(bootstrap=True)
class Base:
    child: int = 0

class T(Base):
    children: List[int] = []
'''
    for lazy in (False, True):
        ctx.count("collision_cases")
        ns = cg.exec_module(src3, prefix="verif_c16d").__dict__
        try:
            T = spec_class(bootstrap=not lazy)(ns["T"])
            T.__spec_class__
            inst = T()
            problems = []
            if not hasattr(T, "with_children_item"):
                problems.append("no with_children_item fallback: the element helpers of `children` take the names of inherited `child`'s scalar helpers")
            r = inst.with_child(5)
            if getattr(r, "child", None) != 5 or r.children != []:
                problems.append(f"with_child(5) no longer sets the inherited scalar attribute (child={getattr(r, 'child', None)!r}, children={r.children!r})")
        except RuntimeError:
            problems = []  # refusing the combination is the documented alternative
        except Exception as e:
            problems = [f"{type(e).__name__}: {e}"]
        if problems:
            ctx.violation("singular_collision_fallback", f"inherited child + own children (lazy={lazy}): {problems}", features={"case": "collision_inherited", "lazy": lazy}, case=["collision3", lazy])
    # the parent knows a collection only as its key (outside `attrs`, or private): it is unmanaged and has no helpers, and a
    # subclass whose own attribute collides with its singular must not conjure up element helpers for it either
    src6 = HEAD + '''
@spec_class(key="names", attrs=["x"], bootstrap=BOOT)
class P:
    names: List[str]
    x: int = 0

@spec_class(bootstrap=BOOT)
class C(P):
    name: str = "n"

@spec_class(key="_tags", bootstrap=BOOT)
class Q:
    _tags: List[str]
    x: int = 0

@spec_class(bootstrap=BOOT)
class D(Q):
    _tag: str = "t"
    tag: str = "u"
'''
    verbs = ("with", "update", "transform", "reset", "without")
    for boot in (True, False):
        ctx.count("collision_cases")
        ctx.count("unmanaged_key_collision_cases")
        try:
            ns = cg.exec_module(src6.replace("BOOT", str(boot)), prefix="verif_c16k").__dict__
            problems = []
            for cname, stems, ctor in (("P", ("names", "name", "names_item"), {"names": ["a"]}), ("C", ("names", "names_item"), {"names": ["a"]}), ("Q", ("_tags", "_tag", "_tags_item"), {"_tags": ["a"]}),
                                       ("D", ("_tags", "_tags_item", "_tag"), {"_tags": ["a"]})):
                cls = ns[cname]
                cls(**ctor)
                found = sorted(f"{v}_{stem}" for v in verbs for stem in stems if hasattr(cls, f"{v}_{stem}"))
                if found:
                    problems.append(f"{cname} has helpers {found} for an attribute it does not manage")
            for cname, attr in (("C", "name"), ("D", "tag")):
                r = getattr(ns[cname](**({"names": ["a"]} if cname == "C" else {"_tags": ["a"]})), f"with_{attr}")("z")
                if getattr(r, attr) != "z":
                    problems.append(f"{cname}.with_{attr}('z') does not set the scalar attribute")
        except RuntimeError:
            problems = []  # refusing the combination is the documented alternative
        except Exception as e:
            problems = [f"{type(e).__name__}: {e}"]
        if problems:
            ctx.violation("only_documented_helpers_added", f"collection known only as the parent's key + colliding subclass attribute (bootstrap={boot}): {problems}", features={"case": "collision_unmanaged_key", "lazy": not boot}, case=["collision6", boot])
    # a second collection whose natural singular is the fallback name the first one took: falls back again (or refuses)
    src7 = HEAD + '''
@spec_class(bootstrap=BOOT)
class T:
    tag: str = "t"
    tags: List[int] = [1, 2]
    tags_items: Dict[str, str] = {"k": "v"}
'''
    for boot in (True, False):
        ctx.count("collision_cases")
        ctx.count("second_order_collision_cases")
        try:
            T = cg.exec_module(src7.replace("BOOT", str(boot)), prefix="verif_c16t").__dict__["T"]
            t = T()
            attrs = T.__spec_class__.attrs
            n1, n2 = attrs["tags"].item_name, attrs["tags_items"].item_name
            problems = []
            if n1 == n2:
                problems.append(f"both collections publish their element helpers as *_{n1}")
            else:
                for attr, nm in (("tags", n1), ("tags_items", n2)):
                    missing = [f"{v}_{nm}" for v in ("with", "update", "transform", "without") if not hasattr(T, f"{v}_{nm}")]
                    if missing:
                        problems.append(f"{attr}: no {missing}")
                if not problems:
                    r = getattr(t, f"with_{n1}")(3)
                    if r.tags != [1, 2, 3] or r.tags_items != {"k": "v"}:
                        problems.append(f"with_{n1} (element helper of tags) gave tags={r.tags!r}, tags_items={r.tags_items!r}")
                    r = getattr(t, f"with_{n2}")("z", "w")
                    if r.tags_items != {"k": "v", "z": "w"} or r.tags != [1, 2]:
                        problems.append(f"with_{n2} (element helper of tags_items) gave tags_items={r.tags_items!r}, tags={r.tags!r}")
                    if t.with_tag("u").tag != "u":
                        problems.append("with_tag no longer sets the scalar")
        except RuntimeError:
            problems = []  # refusing the combination is the documented alternative
        except Exception as e:
            problems = [f"{type(e).__name__}: {e}"]
        if problems:
            ctx.violation("singular_collision_fallback", f"tag + tags + tags_items (bootstrap={boot}): {problems}", features={"case": "collision_second_order", "lazy": not boot}, case=["collision7", boot])
    # two collections whose natural singulars coincide although that singular is not an attribute name (both declaration orders)
    for first in ("list_first", "dict_first"):
        decl = ['    info: List[int] = [1]', '    info_items: Dict[str, str] = {"k": "v"}']
        src8 = HEAD + "\n@spec_class(bootstrap=BOOT)\nclass T:\n" + "\n".join(decl if first == "list_first" else decl[::-1]) + "\n"
        for boot in (True, False):
            ctx.count("collision_cases")
            ctx.count("same_singular_collision_cases")
            try:
                T = cg.exec_module(src8.replace("BOOT", str(boot)), prefix="verif_c16u").__dict__["T"]
                t = T()
                attrs = T.__spec_class__.attrs
                n1, n2 = attrs["info"].item_name, attrs["info_items"].item_name
                problems = []
                if n1 == n2:
                    problems.append(f"both collections publish their element helpers as *_{n1}")
                else:
                    for attr, nm in (("info", n1), ("info_items", n2)):
                        missing = [f"{v}_{nm}" for v in ("with", "update", "transform", "without") if not hasattr(T, f"{v}_{nm}")]
                        if missing:
                            problems.append(f"{attr}: no {missing}")
                    if not problems:
                        r = getattr(t, f"with_{n1}")(3)
                        if r.info != [1, 3] or r.info_items != {"k": "v"}:
                            problems.append(f"with_{n1} (element helper of info) gave info={r.info!r}, info_items={r.info_items!r}")
                        r = getattr(t, f"with_{n2}")("z", "w")
                        if r.info_items != {"k": "v", "z": "w"} or r.info != [1]:
                            problems.append(f"with_{n2} (element helper of info_items) gave info_items={r.info_items!r}, info={r.info!r}")
                        r = getattr(t, f"without_{n1}")(1)
                        if r.info != [] or r.info_items != {"k": "v"}:
                            problems.append(f"without_{n1} (element helper of info) gave info={r.info!r}, info_items={r.info_items!r}")
            except RuntimeError:
                problems = []  # refusing the combination is the documented alternative
            except Exception as e:
                problems = [f"{type(e).__name__}: {e}"]
            if problems:
                ctx.violation("singular_collision_fallback", f"info + info_items, same natural singular (bootstrap={boot}, {first}): {problems}", features={"case": "collision_same_singular", "lazy": not boot, "order": first}, case=["collision8", boot, first])
    src2 = HEAD + '''
class T:
    child: int = 0
    children: List[int] = []
    children_item: int = 1
'''
    ctx.count("collision_cases")
    ns = cg.exec_module(src2, prefix="verif_c16d").__dict__
    try:
        T = spec_class(bootstrap=True)(ns["T"])
        ctx.violation("singular_collision_fallback", "child + children + children_item was accepted (expected RuntimeError: helpers would shadow another attribute's)", features={"case": "collision_error"}, case=["collision2"])
    except RuntimeError:
        pass
    except Exception as e:
        ctx.violation("singular_collision_fallback", f"child + children + children_item raised {type(e).__name__}: {e}; expected RuntimeError", features={"case": "collision_error"}, case=["collision2"])


def run(ctx, params):
    rng = ctx.rng
    if params.get("directed"):
        return directed_cases(ctx)
    for ci in range(params["classes"]):
        mode = MODES[(ci + (params.get("shard") or 0)) % len(MODES)]
        chosen = rng.sample(POOL, rng.randint(2, 4))
        if mode == "attrs":
            chosen = [c for c in chosen if c[0] != "leaf"] or chosen
        switches = {"init": rng.random() < 0.8, "repr": rng.random() < 0.8, "eq": rng.random() < 0.8}
        lazy = rng.random() < 0.5
        subclass = rng.random() < 0.3
        if subclass:
            ctx.count("subclass_cases")
        ctx.count(f"mode:{mode}")
        feats = {"mode": mode, "switches": "".join(k[0] for k, v in switches.items() if v), "lazy": lazy, "subclass": subclass}
        src, deco_src, model = build_case(rng, mode, chosen, switches, lazy, subclass)
        judge_case(ctx, src, deco_src, model, feats, [params.get("shard"), ci, "plain"])
        names = sorted(n for n in model["expected"] if not n.startswith("__spec_class") and n not in ("__getattr__", "__setattr__", "__delattr__", "__deepcopy__", "__dataclass_fields__"))
        if params["names_per_class"] and len(names) > params["names_per_class"]:
            names = rng.sample(names, params["names_per_class"])
        for name in names:
            kinds = ["function"] if name.startswith("__") else OCCUPANTS
            for occ in kinds:
                ctx.count("occupied_variants")
                ctx.count(f"occupant:{occ}")
                st = rng.getstate()
                rng2_seed = rng.random()
                import random as _r

                r2 = _r.Random(f"{ci}/{mode}")  # same attribute styles for every variant of this class
                src, deco_src, model = build_case(r2, mode, chosen, switches, lazy, subclass, occupied=name, occupant=occ)
                judge_case(ctx, src, deco_src, model, dict(feats, occupied=_kind(name, model), occupant=occ), [params.get("shard"), ci, name, occ])
        if ci % 10 == 0:
            ctx.sample({"mode": mode, "decorator": deco_src, "attrs": [c[0] for c in chosen], "expected_generated_names": len(model["expected"]), "source_tail": src[-300:]})


def plan(tier, seed):
    if tier == "quick":
        return [{"directed": True}] + [{"shard": i, "classes": 12, "names_per_class": 6} for i in range(15)]
    return [{"directed": True}] + [{"shard": i, "classes": 60, "names_per_class": 0} for i in range(31)]
