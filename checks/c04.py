"""
C04 - an operation that raises leaves every pre-existing object unchanged.

Monitor: invariant at a hook + fault enumeration. Around every operation a deep
snapshot of the receiver, the argument objects, every other live instance and
the class-level attributes of every generated class is taken; if the operation
raises, the post-snapshot must be identical. Failures are enumerated: ill-typed
value at each argument position, missing index/key/element, duplicate key,
unknown keyword, raising transform, and an InjectedFault from each user
callback the operation invokes at its 1st, 2nd, ... invocation (state rebuilt
by deterministic replay for every fault).
"""

from __future__ import annotations

from vlib import classgen as cg
from vlib import driver as dr
from vlib import faults
from vlib.core import safe_repr

PROP = "C04"
LEVEL = "fault_enumeration"
EVAL_COUNTER = "raising_ops_judged"
RULE = (
    "seeded class definitions x histories of 0-8 operations x one operation (constructor, assignment, deletion, any helper, "
    "in place or copy-on-write) made to fail in each enumerated way: non-conforming value per position, missing target, unknown "
    "keyword, ill-typed nested keyword / dict key, raising transform, and InjectedFault at every (user callback, i-th invocation) "
    "observed in an unarmed run of the same operation; judged = operations that raised; distinct by (operation kind, call form, "
    "in-place?, failure class / callback, exception type, attribute type, class shape)"
)
ASSUMPTIONS = [
    "the constructor's own half-built instance is not a pre-existing object",
    "benign cache fills are excluded by saturating all cached properties before the pre-snapshot",
    "faults are injected at callback entry (the callback has had no effect yet)",
]


def GATES(tier):
    return [("raising_ops_judged", 300), ("callback_faults_judged", 50), ("inplace_raising_judged", 50), ("fail:nonconf", 20), ("fail:missing_target", 20), ("fail:unknown_kw", 20), ("fail:raising_cb", 10), ("fail:dup_key", 5), ("callback_kind:keyfn", 20), ("callback_kind:validator", 3), ("callback_kind:post_copy", 5), ("fail:container_rejects", 4)]


def judge(ctx, world, op, step, history, failure, case, extra=None):
    diffs = dr.changed(step)
    recv_cls = dr.class_name(world, step.recv) if step.recv is not None else op.get("cls")
    t = cg.BY_NAME.get((op.get("attr") or "").split(",")[0], None)
    feats = {
        "hkind": op["hkind"], "form": op.get("form"), "inplace": bool(op.get("inplace")), "failure": failure,
        "exc": type(step.exc).__name__, "attr_kind": t.kind if t else None, "elem": t.elem if t else None,
        "nattrs": len((op.get("attr") or "").split(",")) if op["hkind"] in ("update", "transform") else 1,
        "changed": sorted({r.split(":")[0].rstrip("0123456789") if r.startswith(("arg", "kw:", "i")) and not r.startswith("recv") else r.split(":")[0] for r in dr.changed_roots(step)}),
        "position": op.get("position"),
    }
    if recv_cls:
        feats.update(dr.shape_features(world, recv_cls))
    if extra:
        feats.update(extra)
    ctx.count("raising_ops_judged")
    if op.get("inplace"):
        ctx.count("inplace_raising_judged")
    ctx.count(f"fail:{failure.split(':')[0]}")
    ctx.sig(op["hkind"], op.get("form"), bool(op.get("inplace")), failure, feats["exc"], feats["attr_kind"], feats["elem"], feats.get("cls_kind"), feats.get("lazy"))
    if diffs:
        ctx.violation(
            "raise_leaves_state_unchanged",
            f"{dr.op_src(op)} raised {type(step.exc).__name__} ({failure}) but changed pre-existing objects: {diffs[:3]}",
            features=feats,
            case=case,
            history=dr.describe_history(history),
            source=world.source[-1800:],
            exception=safe_repr(step.exc, 200),
        )


def invalidated_dependants(world, step, op_attrs):
    """Attributes (transitively) declared invalidated_by one of `op_attrs` (or '*') in the receiver's class."""
    if step.recv is None:
        return set()
    cname = dr.class_name(world, step.recv)
    attrs = world.decl.attrs_of(cname)
    out, frontier = set(), set(op_attrs)
    while frontier:
        nxt = set()
        for n, (_o, a) in attrs.items():
            if n not in out and n not in op_attrs and a.invalidated_by and (set(a.invalidated_by) & frontier or "*" in a.invalidated_by):
                nxt.add(n)
        out |= nxt
        frontier = nxt
    return out


SCOPES = ("recv", "args", "all", "classes")


def directed_known_findings(ctx):
    """Fixed witnesses of the open known findings, so each is observed (and printed) on every run whatever the seed."""
    decl = cg.ModuleDecl(
        classes=[
            cg.ClassDecl(
                name="M",
                attrs=[
                    cg.AttrDecl(tk="int", default=["lit", cg.R_lit(1)]),
                    cg.AttrDecl(tk="li", default=["lit", cg.R_lit([1])]),
                    cg.AttrDecl(tk="str", default=["attr", cg.R_lit("a")], invalidated_by=("x", "nums"), preparer="upper"),
                ],
            )
        ]
    )
    world = cg.World(decl)
    try:
        history = [{"kind": "construct", "cls": "M", "args": [], "kwargs": {"label": cg.R_lit("b")}}]
        for op in (
            {"kind": "setattr", "target": 0, "attr": "x", "value": cg.R_lit(5), "args": [cg.R_lit(5)], "hkind": "setattr", "validity": "valid", "form": "assign", "inplace": True},
            {"kind": "helper", "target": 0, "name": "with_x", "attr": "x", "args": [cg.R_lit(5)], "kwargs": {"_inplace": True}, "hkind": "with", "validity": "valid", "form": "value", "inplace": True},
            # (the two above were the original witnesses: repaired by e85e4ae, kept as regression cases)
            {"kind": "helper", "target": 0, "name": "with_num", "attr": "nums", "args": [cg.R_lit(5)], "kwargs": {"_inplace": True}, "hkind": "with_item", "validity": "valid", "form": "append", "inplace": True},
            {"kind": "helper", "target": 0, "name": "without_num", "attr": "nums", "args": [cg.R_lit(0)], "kwargs": {"_inplace": True, "_by_index": True}, "hkind": "without_item", "validity": "valid", "form": "index:True", "inplace": True},
        ):
            insts = dr.replay(world, history)
            world.probe.arm("prep:label", 0)
            st = dr.execute(world, insts, op, scopes=SCOPES)
            fired = world.probe.fired
            world.probe.reset()
            ctx.count("directed_cases")
            if fired and st.outcome == "raised":
                judge(ctx, world, op, st, history, "callback:prep", ["directed", op["hkind"]], {
                    "callback": "prep", "invocation": 0, "invocations_total": 1,
                    "callback_on_invalidated_dependant": "label" in invalidated_dependants(world, st, {op["attr"]}),
                })
    finally:
        world.close()


CALLBACK_KINDS_SRC = """
from typing import List
from spec_classes import spec_class, Attr
from spec_classes.types import KeyedList, KeyedSet, validated


def keyfn(item):
    PROBE.enter('keyfn')
    return item.name


def _nonneg(v):
    PROBE.enter('validator')
    return isinstance(v, int) and v >= 0


NonNeg = validated(_nonneg, name="NonNeg")


@spec_class
class Unit:
    name: str = ""
    v: int = 0


@spec_class
class Box:
    n: NonNeg = 0
    parts: KeyedList[Unit, str] = Attr(default_factory=lambda: KeyedList(key=keyfn))
    units: KeyedSet[Unit, str] = Attr(default_factory=lambda: KeyedSet(key=keyfn))
    eunits: KeyedSet[Unit, str] = Attr(default_factory=lambda: KeyedSet(key=keyfn, enforce_item_equivalence=True))

    def __post_copy__(self):
        PROBE.enter('post_copy')
"""


def directed_callback_kinds(ctx):
    """
    The callback kinds the generated grammar does not contain - key functions of keyed containers, validators of
    validated types, __post_copy__ - each made to raise at its first, second, ... invocation inside element helpers,
    scalar helpers, assignment and deepcopy, in place and copy-on-write; plus failures of the container itself
    (duplicate key, unequal item under enforce_item_equivalence). Whatever raises, the receiver is as before.
    """
    from vlib import faults
    from vlib.snap import snap

    probe = faults.Probe()
    ns = cg.exec_module(CALLBACK_KINDS_SRC, extra={"PROBE": probe}, prefix="verif_c04d").__dict__
    Box, Unit = ns["Box"], ns["Unit"]
    inc = lambda v: v + 1  # noqa: E731

    def mk():
        b = Box(n=1)
        for name in ("a", "b"):
            b.with_part(Unit(name=name, v=1), _inplace=True)
            b.with_unit(Unit(name=name, v=1), _inplace=True)
            b.with_eunit(Unit(name=name, v=1), _inplace=True)
        return b

    ops = [
        ("with_part(new)", lambda b, ip: b.with_part(Unit(name="c"), _inplace=ip)),
        ("with_part(dup)", lambda b, ip: b.with_part(Unit(name="a", v=9), _inplace=ip)),
        ("update_part('a', v=5)", lambda b, ip: b.update_part("a", v=5, _inplace=ip)),
        ("update_part('a', name='z')", lambda b, ip: b.update_part("a", name="z", _inplace=ip)),
        ("update_part('a', name='b')", lambda b, ip: b.update_part("a", name="b", _inplace=ip)),
        ("transform_part('a', v=inc)", lambda b, ip: b.transform_part("a", v=inc, _inplace=ip)),
        ("without_part('a')", lambda b, ip: b.without_part("a", _inplace=ip)),
        ("without_part(0)", lambda b, ip: b.without_part(0, _by_index=True, _inplace=ip)),
        ("with_parts([x, y])", lambda b, ip: b.with_parts([Unit(name="x"), Unit(name="y")], _inplace=ip)),
        ("with_unit(new)", lambda b, ip: b.with_unit(Unit(name="c"), _inplace=ip)),
        ("update_unit('a', v=5)", lambda b, ip: b.update_unit("a", v=5, _inplace=ip)),
        ("update_unit('a', name='z')", lambda b, ip: b.update_unit("a", name="z", _inplace=ip)),
        ("transform_unit('a', v=inc)", lambda b, ip: b.transform_unit("a", v=inc, _inplace=ip)),
        ("without_unit('a')", lambda b, ip: b.without_unit("a", _inplace=ip)),
        ("update_eunit('a', v=5)", lambda b, ip: b.update_eunit("a", v=5, _inplace=ip)),
        ("update_eunit('a', name='b')", lambda b, ip: b.update_eunit("a", name="b", _inplace=ip)),
        ("with_eunit(unequal 'a')", lambda b, ip: b.with_eunit(Unit(name="a", v=9), _inplace=ip)),
        ("with_n(5)", lambda b, ip: b.with_n(5, _inplace=ip)),
        ("with_n(-1)", lambda b, ip: b.with_n(-1, _inplace=ip)),
        ("transform_n(inc)", lambda b, ip: b.transform_n(inc, _inplace=ip)),
        ("update(n=4, parts=[x])", lambda b, ip: b.update(n=4, parts=[Unit(name="x")], _inplace=ip)),
        ("b.n = 3", lambda b, ip: setattr(b, "n", 3)),
        ("del b.parts", lambda b, ip: delattr(b, "parts")),
        ("reset()", lambda b, ip: b.reset(_inplace=ip)),
        ("deepcopy", lambda b, ip: __import__("copy").deepcopy(b)),
    ]

    def judged(label, ip, arm):
        b = mk()
        probe.reset()
        if arm is not None:
            probe.arm(*arm)
        before = snap({"recv": b})
        try:
            ops_by_label[label](b, ip)
            outcome, exc = "returned", None
        except BaseException as e:  # noqa
            outcome, exc = "raised", e
        log = probe.invocations()
        fired = probe.fired
        probe.reset()
        after = snap({"recv": b})
        if outcome == "raised":
            ctx.count("raising_ops_judged")
            ctx.count("directed_callback_kind_cases")
            failure = f"callback:{arm[0]}" if (arm and fired) else "container_rejects"
            ctx.count(f"fail:{failure.split(':')[0]}")
            if arm and fired:
                ctx.count(f"callback_kind:{arm[0]}")
            ctx.sig("directed_cb", label, ip, failure, arm[1] if arm else None)
            if before != after:
                ctx.violation("raise_leaves_state_unchanged", f"[directed] Box.{label} (in place: {ip}) raised {type(exc).__name__} ({failure}{', invocation #' + str(arm[1]) if arm and fired else ''}) but changed the receiver: {before.diff(after, 3)}",
                              features={"phase": "directed_callback_kinds", "hkind": label.split("(")[0], "inplace": ip, "failure": failure, "callback": arm[0] if arm else None, "exc": type(exc).__name__},
                              case=["directed_cb", label, ip, list(arm) if arm else None], exception=safe_repr(exc, 160))
        return log

    ops_by_label = dict(ops)
    for label, _fn in ops:
        for ip in (False, True):
            log = judged(label, ip, None)
            for name, i in log[:24]:
                judged(label, ip, (name, i))


def run(ctx, params):
    rng = ctx.rng
    if params.get("directed"):
        directed_callback_kinds(ctx)
        return directed_known_findings(ctx)
    for ci in range(params["cases"]):
        decl = cg.gen_module(rng, {"frozen": False})
        world = cg.World(decl)
        try:
            history, insts = dr.build_history(world, rng, rng.randint(0, 8))
            for ji in range(params["judged_per_case"]):
                case = [params.get("shard"), ci, ji]
                validity = rng.choice(dr.VALIDITIES + ["valid"])
                klist_targets = [i for i, x in enumerate(insts) if dr.class_name(world, x) and len(x.__dict__.get("parts", ())) > 0]
                if validity == "dup_key" and klist_targets:
                    op = dr.gen_helper(world, rng, insts, rng.choice(klist_targets), hkind="with_item", validity="dup_key", inplace=rng.random() < 0.7, attr="parts")
                else:
                    op = dr.gen_any_op(world, rng, insts, validity=validity, inplace=rng.random() < 0.6)
                insts_before = list(insts)
                step = dr.execute(world, insts, op, scopes=SCOPES)
                ctx.count("ops_run")
                if step.outcome == "raised":
                    judge(ctx, world, op, step, history, validity, case)
                    if ci % 50 == 0 and ji < 2:
                        ctx.sample({"history": dr.describe_history(history), "failing_op": dr.op_src(op), "failure": validity, "exception": safe_repr(step.exc, 120)})
                else:
                    ctx.count("ops_returned")
                # callback faults: every (callback, i) seen in the unarmed run, on a rebuilt state
                log = step.probe_log[:14]
                if log and rng.random() < params["fault_fraction"]:
                    for name, i in log:
                        insts2 = dr.replay(world, history)
                        world.probe.arm(name, i)
                        st2 = dr.execute(world, insts2, op, scopes=SCOPES)
                        fired = world.probe.fired
                        world.probe.reset()
                        if not fired:
                            ctx.count("callback_faults_not_reached")
                            continue
                        if st2.outcome != "raised":
                            ctx.count("callback_faults_swallowed")
                            continue
                        ctx.count("callback_faults_judged")
                        cb_attr = name.split(":")[1] if ":" in name else None
                        op_attrs = set((op.get("attr") or "").split(",")) - {""}
                        judge(ctx, world, op, st2, history, f"callback:{name.split(':')[0]}", case + [name, i], {
                            "callback": name.split(":")[0], "invocation": i, "invocations_total": sum(1 for n_, _ in log if n_ == name),
                            "callback_on_invalidated_dependant": bool(cb_attr and cb_attr not in op_attrs and cb_attr in invalidated_dependants(world, st2, op_attrs)),
                        })
                dr.register_result(world, insts, step)
                history.append(op)
        finally:
            world.close()


def plan(tier, seed):
    if tier == "quick":
        return [{"directed": True}] + [{"shard": i, "cases": 60, "judged_per_case": 8, "fault_fraction": 0.5} for i in range(16)]
    return [{"directed": True}] + [{"shard": i, "cases": 1200, "judged_per_case": 10, "fault_fraction": 0.6} for i in range(32)]
