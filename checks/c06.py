"""
C06 - element helpers edit list/dict/set attributes like the plain container operation.

Monitor: history + executable reference model. The model is the plain Python container operation (list / dict / set,
ordered-unique list for KeyedList attributes, key->item dict for KeyedSet attributes) applied to the abstract content
the attribute held before the call; after each helper the abstract content of the attribute in the result must equal
the model (order included for sequences), every other attribute must be untouched, and a missing target must raise
IndexError / KeyError / ValueError.
"""

from __future__ import annotations

import copy
import itertools

from vlib import classgen as cg
from vlib import driver as dr
from vlib.core import safe_repr
from vlib.snap import alpha

PROP = "C06"
LEVEL = "exploration"
EVAL_COUNTER = "helper_calls_judged"
RULE = (
    "exhaustive: List[int] contents over {0,1,2} up to length 3, Set[int] over {0,1,2}, Set[str] over {'', 'a', 'b'}, Dict[str,int] "
    "over keys {'', 'a', 'b'} x every element helper x every addressing mode (_index/_insert, _by_index True/False/default, key, "
    "value) x every index in [-len-1, len+1] x in-place/copy; random: histories over generated classes with list/dict/set/KeyedList/"
    "KeyedSet attributes of scalar, spec and keyed-spec elements (keywords building/updating elements, bare keys, key addressing); "
    "distinct by (container family, element kind, helper, call form / addressing class, position class, outcome)"
)
ASSUMPTIONS = [
    "plain-container reference model in this file, written from docsite/docs/usage/methods/collections.md",
    "UNSPECIFIED (not judged): transforms on attributes with an item preparer "
    "whose result the preparer would change; key addressing of plain List[keyed spec] attributes",
]
ELEM_HELPERS = ["with_item", "update_item", "transform_item", "without_item"]
MISSING_FAMILY = (IndexError, KeyError, ValueError)


def GATES(tier):
    g = [("helper_calls_judged", 2000), ("exhaustive_calls", 1000), ("missing_target_expected", 100), ("falsy_element_cases", 50), ("negative_index_cases", 50), ("directed_by_value_cases", 10)]
    for fam in ("list", "dict", "set", "klist", "kset"):
        for hk in ELEM_HELPERS:
            g.append((f"{fam}:{hk}", 3))
    return g


class Unspec(Exception):
    pass


class Expect(Exception):
    def __init__(self, family):
        self.family = family


LEAF_DEFAULTS = {"v": 0, "w": "w", "ws": []}


def spec_alpha(cls_name, d):
    return ("spec", cls_name, dict(d))


def build_elem(elem, item, kw, ip):
    """Abstract element stored when `item` (object / bare key / absent) and keyword attributes are given."""
    kwa = {k: alpha(v) for k, v in kw.items()}
    if elem in ("int", "str"):
        if kw:
            raise Unspec()
        return cg.model_prepare(ip, item) if ip else item
    cname = "Leaf" if elem == "leaf" else "KLeaf"
    if item is dr._ABSENT:
        base = dict(LEAF_DEFAULTS) if elem == "leaf" else {"v": 0}
        if elem == "kleaf" and "k" not in kwa:
            raise Unspec()
        base.update(kwa)
        return spec_alpha(cname, base)
    if elem == "kleaf" and isinstance(item, str):
        return spec_alpha(cname, {"k": item, "v": 0, **kwa})
    a = alpha(item)
    if not (isinstance(a, tuple) and a and a[0] == "spec" and a[1] == cname):
        raise Unspec()
    return spec_alpha(cname, {**a[2], **kwa})


def conforms_elem(elem, v):
    if elem == "int":
        return isinstance(v, int)
    if elem == "str":
        return isinstance(v, str)
    return type(v).__name__ == ("Leaf" if elem == "leaf" else "KLeaf")


def locate_seq(L, elem, voi, by_index, keyed):
    """Index of the addressed element of abstract list L."""
    n = len(L)
    if by_index is dr._ABSENT:
        by_index = not conforms_elem(elem, voi)
    if by_index:
        if isinstance(voi, bool) or not isinstance(voi, int):
            if keyed and isinstance(voi, str):
                for i, x in enumerate(L):
                    if x[2].get("k") == voi:
                        return i
                raise Expect(MISSING_FAMILY)
            raise Unspec()
        if -n <= voi < n:
            return voi % n
        raise Expect(MISSING_FAMILY)
    av = alpha(voi)
    for i, x in enumerate(L):
        if x == av:
            return i
    raise Expect(MISSING_FAMILY)


def check_unique(L):
    keys = [x[2].get("k") for x in L]
    if len(set(keys)) != len(keys):
        raise Expect((ValueError,))


def apply_fn(fname, a, elem, ip):
    try:
        out = cg.model_transform(fname, copy.deepcopy(a))
    except Exception:
        raise Unspec()
    if ip and cg.model_prepare(ip, out) != out:
        raise Unspec()  # whether transformed items are re-prepared is not documented
    return out


def model(world, cname, op, args, kwargs, cur):
    """Expected abstract content of the attribute after `op` (cur = abstract content before, or ABSENT)."""
    n = op["attr"]
    t = cg.BY_NAME[n]
    elem = t.elem
    ip = world.decl.item_preparer_of(cname, n)
    hk = op["hkind"]
    kw = {k: v for k, v in kwargs.items() if not k.startswith("_")}
    by_index = kwargs.get("_by_index", dr._ABSENT)
    missing_container = cur is dr._ABSENT
    # (a missing container is an empty one for every element helper: with_ creates it, the others find no target)
    if t.kind in ("list", "klist"):
        keyed = t.kind == "klist"
        L = [] if missing_container else list(cur[1] if keyed else cur)
        if hk == "with_item":
            item = args[0] if args else dr._ABSENT
            idx = kwargs.get("_index", dr._ABSENT)
            new = build_elem(elem, item, kw, ip)
            if idx is dr._ABSENT:
                L.append(new)
            elif kwargs.get("_insert"):
                if not isinstance(idx, int):
                    raise Unspec()
                L.insert(idx, new)
            else:
                i = locate_seq(L, elem, idx, True, keyed)
                L[i] = new
        elif hk == "update_item":
            i = locate_seq(L, elem, args[0], by_index, keyed)
            if len(args) > 1:
                L[i] = build_elem(elem, args[1], kw, ip)
            else:
                if elem in ("int", "str"):
                    raise Unspec()
                L[i] = spec_alpha(L[i][1], {**L[i][2], **{k: alpha(v) for k, v in kw.items()}})
        elif hk == "transform_item":
            i = locate_seq(L, elem, args[0], by_index, keyed)
            if len(args) > 1:
                L[i] = apply_fn(op["args"][1][1], L[i], elem, ip)
            d = None
            for k, f in op["kwargs"].items():
                if k.startswith("_"):
                    continue
                d = dict(L[i][2]) if d is None else d
                if k not in d:
                    raise Unspec()
                d[k] = cg.model_transform(f[1], d[k])
            if d is not None:
                L[i] = spec_alpha(L[i][1], d)
        else:
            i = locate_seq(L, elem, args[0], by_index, keyed)
            del L[i]
        if keyed:
            check_unique(L)
            return ("KeyedList", L)
        return L
    if t.kind == "dict":
        D = {} if missing_container else dict(cur)
        key = args[0]
        if hk == "with_item":
            item = args[1] if len(args) > 1 else dr._ABSENT
            D[key] = build_elem(elem, item, kw, ip)
        elif hk == "update_item":
            if key not in D:
                raise Expect(MISSING_FAMILY)
            if len(args) > 1:
                D[key] = build_elem(elem, args[1], kw, ip)
            else:
                if elem in ("int", "str"):
                    raise Unspec()
                D[key] = spec_alpha(D[key][1], {**D[key][2], **{k: alpha(v) for k, v in kw.items()}})
        elif hk == "transform_item":
            if key not in D:
                raise Expect(MISSING_FAMILY)
            D[key] = apply_fn(op["args"][1][1], D[key], elem, ip)
        else:
            if key not in D:
                raise Expect(MISSING_FAMILY)
            del D[key]
        return D
    if t.kind == "set":
        S = set() if missing_container else set(cur)
        x = args[0] if args else dr._ABSENT
        if hk == "with_item":
            S.add(build_elem(elem, x, kw, ip))
        elif hk == "update_item":
            if x not in S:
                raise Expect(MISSING_FAMILY)
            if len(args) < 2:
                raise Unspec()
            S.discard(x)
            S.add(build_elem(elem, args[1], kw, ip))
        elif hk == "transform_item":
            if x not in S:
                raise Expect(MISSING_FAMILY)
            S.discard(x)
            S.add(apply_fn(op["args"][1][1], x, elem, ip))
        else:
            if x not in S:
                raise Expect(MISSING_FAMILY)
            S.discard(x)
        return frozenset(S)
    if t.kind == "kset":
        D = {} if missing_container else dict(cur[1])
        x = args[0] if args else dr._ABSENT

        def key_of(v):
            if isinstance(v, str):
                return v
            a = alpha(v)
            if isinstance(a, tuple) and a and a[0] == "spec":
                return a[2].get("k")
            raise Unspec()

        if hk == "with_item":
            new = build_elem(elem, x, kw, ip)
            D[new[2]["k"]] = new
        elif hk == "update_item":
            k = key_of(x)
            if k not in D:
                raise Expect(MISSING_FAMILY)
            if len(args) > 1:
                new = build_elem(elem, args[1], kw, ip)
            else:
                new = spec_alpha(D[k][1], {**D[k][2], **{kk: alpha(v) for kk, v in kw.items()}})
            del D[k]
            D[new[2]["k"]] = new
        elif hk == "transform_item":
            k = key_of(x)
            if k not in D:
                raise Expect(MISSING_FAMILY)
            new = D[k]
            if len(args) > 1:
                new = apply_fn(op["args"][1][1], new, elem, ip)
            d = None
            for kk, f in op["kwargs"].items():
                if kk.startswith("_"):
                    continue
                d = dict(new[2]) if d is None else d
                d[kk] = cg.model_transform(f[1], d[kk])
            if d is not None:
                new = spec_alpha(new[1], d)
            del D[k]
            D[new[2]["k"]] = new
        else:
            k = key_of(x)
            if k not in D:
                raise Expect(MISSING_FAMILY)
            del D[k]
        return ("KeyedSet", D)
    raise Unspec()


def position_class(op, args, kwargs, cur):
    n = len(cur[1]) if isinstance(cur, tuple) else (len(cur) if cur is not dr._ABSENT else 0)
    parts = []
    idx = kwargs.get("_index", dr._ABSENT)
    cand = idx if idx is not dr._ABSENT else (args[0] if args and op["hkind"] != "with_item" else dr._ABSENT)
    if isinstance(cand, int) and not isinstance(cand, bool):
        parts.append("neg_oob" if cand < -n else "neg" if cand < 0 else "oob" if cand >= n else "in_range")
    if "_insert" in kwargs:
        parts.append("insert")
    if "_by_index" in kwargs:
        parts.append(f"by_index={kwargs['_by_index']}")
    if any((a == 0 or a == "") and not isinstance(a, bool) for a in args if isinstance(a, (int, str))):
        parts.append("falsy_arg")
    parts.append(f"len{min(n, 4)}")
    return ",".join(parts)


def judge(ctx, world, insts, target, op, history, case, exhaustive=False):
    recv = insts[target]
    cname = dr.class_name(world, recv)
    n = op["attr"]
    t = cg.BY_NAME[n]
    args, kwargs = dr.materialise(world, op)
    cur = alpha(recv.__dict__[n]) if n in recv.__dict__ else dr._ABSENT
    pre_other = {k: alpha(v) for k, v in recv.__dict__.items() if k != n}
    try:
        expected = ("ok", model(world, cname, op, args, kwargs, cur))
    except Expect as e:
        expected = ("raise", e.family)
    except Unspec:
        ctx.count("unspecified_skipped")
        st = dr.execute(world, insts, op, scopes=(), saturate=False)
        return st
    except Exception:
        ctx.count("unspecified_skipped")
        return dr.execute(world, insts, op, scopes=(), saturate=False)
    st = dr.execute(world, insts, op, scopes=(), saturate=False)
    ctx.count("helper_calls_judged")
    if exhaustive:
        ctx.count("exhaustive_calls")
    ctx.count(f"{t.kind}:{op['hkind']}")
    pos = position_class(op, args, kwargs, cur)
    if "falsy_arg" in pos:
        ctx.count("falsy_element_cases")
    if "neg" in pos:
        ctx.count("negative_index_cases")
    outcome = "returned" if st.outcome == "returned" else f"raised:{type(st.exc).__name__}"
    ctx.sig(t.kind, t.elem, op["hkind"], op.get("form"), pos, bool(op.get("inplace")), expected[0], outcome)
    feats = {"family": t.kind, "elem": t.elem, "hkind": op["hkind"], "form": op.get("form"), "position": pos, "inplace": bool(op.get("inplace")), "expected": expected[0], "outcome": outcome,
             "item_preparer": bool(world.decl.item_preparer_of(cname, n))}
    details = dict(history=dr.describe_history(history[-6:]), source=world.source[-1200:])
    before_txt = safe_repr(recv.__dict__.get(n, "<missing>"), 70) if st.outcome == "raised" or not op.get("inplace") else safe_repr(cur, 70)
    if expected[0] == "raise":
        ctx.count("missing_target_expected")
        if st.outcome != "raised":
            ctx.violation("missing_target_raises", f"{dr.op_src(op)} on {n}={before_txt}: the target does not exist, expected IndexError/KeyError/ValueError but it returned {safe_repr(getattr(st.value, n, None), 70)}", features=feats, case=case, **details)
        elif not isinstance(st.exc, expected[1]):
            ctx.violation("missing_target_raises", f"{dr.op_src(op)} on {n}={before_txt}: raised {type(st.exc).__name__} ({safe_repr(st.exc, 80)}), expected one of {[e.__name__ for e in expected[1]]}", features=feats, case=case, **details)
        return st
    if st.outcome != "returned":
        ctx.violation("container_model", f"{dr.op_src(op)} on {n}={before_txt}: raised {type(st.exc).__name__}: {safe_repr(st.exc, 100)}; the plain-container model gives {safe_repr(expected[1], 80)}", features=feats, case=case, **details)
        return st
    res = st.value
    if dr.class_name(world, res) is None:
        return st
    got = alpha(res.__dict__[n]) if n in res.__dict__ else dr._ABSENT
    if got != expected[1]:
        ctx.violation("container_model", f"{dr.op_src(op)} on {n}={before_txt}: result {safe_repr(got, 90)}, plain-container model {safe_repr(expected[1], 90)}", features=feats, case=case, **details)
        return st
    # a keyed result answers by key in list order: keys()/items() enumerate the elements as iteration does
    live = res.__dict__.get(n)
    if type(live).__name__ == "KeyedList":
        ctx.count("keyed_result_views_checked")
        try:
            elems = list(live)
            by_keys = [live[k] for k in live.keys()]
            by_items = [it for _k, it in live.items()]
            ok = len(by_keys) == len(elems) == len(by_items) and all(x is y and x is z for x, y, z in zip(elems, by_keys, by_items))
            shown = f"iteration gives {safe_repr(elems, 60)}, [l[k] for k in l.keys()] gives {safe_repr(by_keys, 60)}, items() gives {safe_repr(by_items, 60)}"
        except Exception as e:
            ok, shown = False, f"reading keys()/items()/l[k] raised {type(e).__name__}: {safe_repr(e, 80)}"
        if not ok:
            ctx.violation("container_model", f"{dr.op_src(op)} on {n}={before_txt}: the resulting KeyedList's key views disagree with its element order: {shown}", features=dict(feats, view="keyed_order"), case=case, **details)
            return st
    # all other attributes untouched (invalidated_by dependants and caches of the changed attribute excepted)
    skip = dependants(world, cname, n)
    post_other = {k: alpha(v) for k, v in res.__dict__.items() if k != n}
    for k in set(pre_other) | set(post_other):
        if k in skip or k.startswith("__spec_class"):
            continue
        if pre_other.get(k, "<absent>") != post_other.get(k, "<absent>"):
            ctx.violation("other_attributes_untouched", f"{dr.op_src(op)}: attribute {k} changed from {safe_repr(pre_other.get(k, '<absent>'), 60)} to {safe_repr(post_other.get(k, '<absent>'), 60)}", features=dict(feats, other=k), case=case, **details)
            break
    return st


def dependants(world, cname, attr):
    out = set()
    attrs = world.decl.attrs_of(cname)
    frontier = {attr}
    while frontier:
        nxt = set()
        for n, (_o, a) in attrs.items():
            if n not in out and a.invalidated_by and (set(a.invalidated_by) & frontier or "*" in a.invalidated_by):
                nxt.add(n)
        out |= nxt
        frontier = nxt
    for p in world.decl.props_of(cname).values():
        out.add(p.name)
    return out


# -- exhaustive part ---------------------------------------------------------------


def exhaustive_decl():
    return cg.ModuleDecl(classes=[cg.ClassDecl(name="M", attrs=[cg.AttrDecl(tk="li"), cg.AttrDecl(tk="ls"), cg.AttrDecl(tk="si"), cg.AttrDecl(tk="ss"), cg.AttrDecl(tk="dsi")], bootstrap=True)])


def list_ops(n):
    vals = [0, 1, 2, 5]
    idxs = list(range(-n - 1, n + 2))
    ops = []
    for v in vals:
        ops.append(("with_item", [v], {}))
        for i in idxs:
            ops.append(("with_item", [v], {"_index": i}))
            ops.append(("with_item", [v], {"_index": i, "_insert": True}))
    for a in sorted(set(idxs + vals)):
        for by in (None, True, False):
            kw = {} if by is None else {"_by_index": by}
            ops.append(("without_item", [a], dict(kw)))
            ops.append(("transform_item", [a, "inc"], dict(kw)))
            for v in (0, 5):
                ops.append(("update_item", [a, v], dict(kw)))
    return ops


def run_exhaustive(ctx, params):
    world = cg.World(exhaustive_decl())
    M = world.classes["M"]
    rng = ctx.rng
    part, parts = params["part"], params["parts"]
    k = 0
    try:
        states = [list(c) for n in range(0, 4) for c in itertools.product([0, 1, 2], repeat=n)]
        for content in states:
            for hk, a, kw in list_ops(len(content)):
                k += 1
                if k % parts != part:
                    continue
                for inplace in (False, True):
                    inst = M(nums=list(content))
                    args = [cg.R_lit(a[0])] + ([["fn", a[1]]] if hk == "transform_item" else [cg.R_lit(x) for x in a[1:]])
                    op = {"kind": "helper", "target": 0, "hkind": hk, "attr": "nums", "name": {"with_item": "with_num", "update_item": "update_num", "transform_item": "transform_num", "without_item": "without_num"}[hk],
                          "args": args, "kwargs": dict(kw, **({"_inplace": True} if inplace else {})), "inplace": inplace, "form": "exh", "validity": "valid"}
                    judge(ctx, world, [inst], 0, op, [{"kind": "construct", "cls": "M", "kwargs": {"nums": cg.R_lit(content)}}], ["exh", "list", content, hk, a, kw, inplace], exhaustive=True)
        # List[str]: arguments of the element type (by value by default) and ints (by index by default), every _by_index setting
        states = [list(c) for n in range(0, 4) for c in itertools.product(["", "a", "b"], repeat=n)]
        for content in states:
            n = len(content)
            for a in list(range(-n - 1, n + 2)) + ["", "a", "zz"]:
                for by in (None, True, False):
                    kw = {} if by is None else {"_by_index": by}
                    for hk, extra in (("without_item", []), ("transform_item", ["addz"]), ("update_item", ["q"]), ("update_item", [""])):
                        k += 1
                        if k % parts != part:
                            continue
                        for inplace in (False, True):
                            inst = M(names=list(content))
                            args = [cg.R_lit(a)] + ([["fn", extra[0]]] if hk == "transform_item" else [cg.R_lit(x) for x in extra])
                            op = {"kind": "helper", "target": 0, "hkind": hk, "attr": "names", "name": f"{hk.split('_')[0]}_name", "args": args,
                                  "kwargs": dict(kw, **({"_inplace": True} if inplace else {})), "inplace": inplace, "form": "exh", "validity": "valid"}
                            judge(ctx, world, [inst], 0, op, [{"kind": "construct", "cls": "M", "kwargs": {"names": cg.R_lit(content)}}], ["exh", "liststr", content, hk, a, kw, inplace], exhaustive=True)
        # sets and dicts
        for attr, sing, universe in (("marks", "mark", [0, 1, 2]), ("flags", "flag", ["", "a", "b"])):
            for r in range(0, 4):
                for content in itertools.combinations(universe, r):
                    for x in universe + ([5] if attr == "marks" else ["zz"]):
                        variants = [("with_item", [x]), ("without_item", [x]), ("transform_item", [x, "inc" if attr == "marks" else "addz"])] + [("update_item", [x, y]) for y in universe[:2] + ([7] if attr == "marks" else ["q"])]
                        for hk, a in variants:
                            k += 1
                            if k % parts != part:
                                continue
                            for inplace in (False, True):
                                inst = M(**{attr: set(content)})
                                args = [cg.R_lit(a[0])] + ([["fn", a[1]]] if hk == "transform_item" else [cg.R_lit(y) for y in a[1:]])
                                op = {"kind": "helper", "target": 0, "hkind": hk, "attr": attr, "name": f"{hk.split('_')[0]}_{sing}", "args": args, "kwargs": {"_inplace": True} if inplace else {}, "inplace": inplace, "form": "exh", "validity": "valid"}
                                judge(ctx, world, [inst], 0, op, [{"kind": "construct", "cls": "M", "kwargs": {attr: ["set", list(content)]}}], ["exh", attr, list(content), hk, a, inplace], exhaustive=True)
        keys = ["", "a", "b"]
        for r in range(0, 4):
            for ks in itertools.combinations(keys, r):
                for vals in itertools.product([0, 1], repeat=r):
                    content = dict(zip(ks, vals))
                    for key in keys + ["zz"]:
                        variants = [("with_item", [key, 0]), ("with_item", [key, 3]), ("update_item", [key, 0]), ("update_item", [key, 3]), ("transform_item", [key, "inc"]), ("without_item", [key])]
                        for hk, a in variants:
                            k += 1
                            if k % parts != part:
                                continue
                            for inplace in (False, True):
                                inst = M(weights=dict(content))
                                args = [cg.R_lit(a[0])] + ([["fn", a[1]]] if hk == "transform_item" else [cg.R_lit(y) for y in a[1:]])
                                op = {"kind": "helper", "target": 0, "hkind": hk, "attr": "weights", "name": f"{hk.split('_')[0]}_weight", "args": args, "kwargs": {"_inplace": True} if inplace else {}, "inplace": inplace, "form": "exh", "validity": "valid"}
                                judge(ctx, world, [inst], 0, op, [{"kind": "construct", "cls": "M", "kwargs": {"weights": cg.R_lit(content)}}], ["exh", "dict", content, hk, a, inplace], exhaustive=True)
        ctx.sample({"exhaustive": "List[int] over {0,1,2} len<=3; Set[int]; Set[str]; Dict[str,int]", "list_ops_for_len2": len(list_ops(2)), "example": safe_repr(list_ops(2)[17], 80)})
    finally:
        world.close()


def run_random(ctx, params):
    rng = ctx.rng
    for ci in range(params["cases"]):
        need = rng.sample(["li", "dsi", "si", "ss", "lleaf", "dleaf", "lk", "dk", "kl", "ks"], 3)
        decl = cg.gen_module(rng, {"frozen": False, "require": need})
        world = cg.World(decl)
        try:
            history, insts = dr.build_history(world, rng, rng.randint(0, 5))
            for ji in range(params["ops_per_case"]):
                receivers = [i for i, x in enumerate(insts) if dr.class_name(world, x) is not None]
                target = rng.choice(receivers)
                hk = rng.choice(ELEM_HELPERS)
                validity = "valid" if rng.random() < 0.75 else "missing_target"
                op = dr.gen_helper(world, rng, insts, target, hkind=hk, validity=validity, inplace=rng.random() < 0.4)
                if op["hkind"] not in ELEM_HELPERS:
                    continue
                op["kwargs"].pop("_if", None)
                st = judge(ctx, world, insts, target, op, history, [params.get("shard"), ci, ji])
                dr.register_result(world, insts, st)
                history.append(op)
                if ci % 50 == 0 and ji == 3:
                    ctx.sample({"history": dr.describe_history(history[-5:]), "last_outcome": st.outcome})
        finally:
            world.close()


DIRECTED_SRC = """
from typing import Dict, List, Set
from spec_classes import spec_class, Attr
from spec_classes.types import KeyedList, KeyedSet

def by_v(item):
    return item.v

@spec_class
class Item:
    v: int = 0
    note: str = Attr(default="", compare=False)   # not part of equality: a look-up value equal to a stored element may differ in it

@spec_class(key="k")
class KItem:
    k: str
    v: int = 0
    note: str = Attr(default="", compare=False)

@spec_class(key="k")
class HItem:
    k: str = Attr(default="none", init=False)
    v: int = 0

@spec_class
class Box:
    floats: List[float] = []
    nums: List[int] = []
    marks: Set[float] = set()
    items: List[Item] = []
    kitems: KeyedList[KItem, str] = []
    # singular-name collision: `values` falls back to *_values_item helpers; the scalar `value` has a preparer of its own
    value: int = 0
    values: List[int] = []
    key: str = ""
    keys: Dict[str, int] = {}

    def _prepare_value(self, v):
        return v * 10

    def _prepare_key(self, v):
        return v + "!"

    def _prepare_keys_item(self, v):
        return v + 1

    # ... and an item preparer registered in the decorator form, which does not depend on the helpers' names
    label: str = "x"
    labels: List[str] = Attr(default_factory=list)

    @labels.item_preparer
    def _(self, v):
        return str(v)

    # elements whose key is not a constructor parameter
    hitems: List[HItem] = []
    hmaps: Dict[str, HItem] = {}
    hkls: KeyedList[HItem, str] = []

    # un-keyed spec elements in keyed containers: the key comes from a key function
    fparts: KeyedList[Item, int] = Attr(default_factory=lambda: KeyedList(key=by_v))
    funits: KeyedSet[Item, int] = Attr(default_factory=lambda: KeyedSet(key=by_v))
"""


def _same_thrice(Box, Item):
    b, shared = Box(), Item(v=1, note="keep")
    for _ in range(3):
        b.with_item(shared, _inplace=True)
    return b


def run_directed(ctx):
    """
    Addressing by value finds the element that *equals* the look-up value; the operation then applies to the stored
    element (as `i = xs.index(v); xs[i] = f(xs[i])` would), not to the look-up value: equal-but-distinguishable pairs
    (1.0 / 1 / True; spec elements differing in a compare=False attribute).
    """
    ns = cg.exec_module(DIRECTED_SRC, prefix="verif_c06d").__dict__
    Box, Item, KItem = ns["Box"], ns["Item"], ns["KItem"]
    same = lambda x: x  # noqa: E731
    seen_args = []

    def rec(x):
        seen_args.append(x)
        return x

    def typed(xs):
        return [(type(x).__name__, x) for x in xs]

    cases = [
        # label, build receiver, call, attribute, expected typed content
        ("transform_float(1, same)", lambda: Box(floats=[1.0, 2.5]), lambda b, ip: b.transform_float(1, same, _by_index=False, _inplace=ip), lambda b: typed(b.floats), [("float", 1.0), ("float", 2.5)]),
        ("transform_float(True, same)", lambda: Box(floats=[1.0, 2.5]), lambda b, ip: b.transform_float(True, same, _by_index=False, _inplace=ip), lambda b: typed(b.floats), [("float", 1.0), ("float", 2.5)]),
        ("transform_num(True, same)", lambda: Box(nums=[1, 2]), lambda b, ip: b.transform_num(True, same, _by_index=False, _inplace=ip), lambda b: typed(b.nums), [("int", 1), ("int", 2)]),
        ("transform_num(1.0, inc)", lambda: Box(nums=[1, 2]), lambda b, ip: b.transform_num(True, lambda x: x + 1, _by_index=False, _inplace=ip), lambda b: typed(b.nums), [("int", 2), ("int", 2)]),
        ("transform_mark(1, same)", lambda: Box(marks={1.0}), lambda b, ip: b.transform_mark(1, same, _inplace=ip), lambda b: typed(sorted(b.marks)), [("float", 1.0)]),
        ("update_item(equal probe, v=9)", lambda: Box(items=[Item(v=1, note="keep"), Item(v=2, note="other")]), lambda b, ip: b.update_item(Item(v=1), v=9, _by_index=False, _inplace=ip),
         lambda b: [(i.v, i.note) for i in b.items], [(9, "keep"), (2, "other")]),
        ("transform_item(equal probe, rec)", lambda: Box(items=[Item(v=1, note="keep")]), lambda b, ip: b.transform_item(Item(v=1), rec, _by_index=False, _inplace=ip),
         lambda b: [(i.v, i.note) for i in b.items], [(1, "keep")]),
        ("transform_item(equal probe, v=inc)", lambda: Box(items=[Item(v=1, note="keep")]), lambda b, ip: b.transform_item(Item(v=1), v=lambda x: x + 1, _by_index=False, _inplace=ip),
         lambda b: [(i.v, i.note) for i in b.items], [(2, "keep")]),
        ("update_kitem(equal probe, v=9)", lambda: Box(kitems=[KItem("a", v=1, note="keep")]), lambda b, ip: b.update_kitem(KItem("a", v=1), v=9, _by_index=False, _inplace=ip),
         lambda b: [(i.k, i.v, i.note) for i in b.kitems], [("a", 9, "keep")]),
        ("transform_kitem(equal probe, v=inc)", lambda: Box(kitems=[KItem("a", v=1, note="keep")]), lambda b, ip: b.transform_kitem(KItem("a", v=1), v=lambda x: x + 1, _by_index=False, _inplace=ip),
         lambda b: [(i.k, i.v, i.note) for i in b.kitems], [("a", 2, "keep")]),
        ("with_fpart(Item(v=3))", lambda: Box(), lambda b, ip: b.with_fpart(Item(v=3), _inplace=ip), lambda b: [i.v for i in b.fparts], [3]),
        ("with_funit(Item(v=3))", lambda: Box(), lambda b, ip: b.with_funit(Item(v=3), _inplace=ip), lambda b: sorted(i.v for i in b.funits), [3]),
        ("with_funit(v=4)", lambda: Box().with_funit(Item(v=3)), lambda b, ip: b.with_funit(v=4, _inplace=ip), lambda b: sorted(i.v for i in b.funits), [3, 4]),
        ("with_funit(Item(v=0)) on non-empty", lambda: Box().with_funit(Item(v=3)), lambda b, ip: b.with_funit(Item(v=0), _inplace=ip), lambda b: sorted(i.v for i in b.funits), [0, 3]),
        ("without_funit(3)", lambda: Box().with_funit(Item(v=3)).with_funit(Item(v=0)), lambda b, ip: b.without_funit(3, _inplace=ip), lambda b: sorted(i.v for i in b.funits), [0]),
        ("with_values_item(3) [collision, scalar preparer]", lambda: Box(), lambda b, ip: b.with_values_item(3, _inplace=ip), lambda b: (b.values, b.value), ([3], 0)),
        ("update_values_item(0, 7) [collision]", lambda: Box(values=[1, 2]), lambda b, ip: b.update_values_item(0, 7, _by_index=True, _inplace=ip), lambda b: b.values, [7, 2]),
        ("with_value(4) [scalar keeps its preparer]", lambda: Box(values=[1]), lambda b, ip: b.with_value(4, _inplace=ip), lambda b: (b.values, b.value), ([1], 40)),
        ("with_keys_item('b', 2) [collision, own item preparer]", lambda: Box(), lambda b, ip: b.with_keys_item("b", 2, _inplace=ip), lambda b: (b.keys, b.key), ({"b": 3}, "!")),  # (the default key "" is prepared on construction)
        ("with_labels_item(5) [collision, decorator-registered item preparer]", lambda: Box(), lambda b, ip: b.with_labels_item(5, _inplace=ip), lambda b: (b.labels, b.label), (["5"], "x")),
        ("update_labels_item(0, 7) [collision, decorator-registered item preparer]", lambda: Box(labels=["a", "b"]), lambda b, ip: b.update_labels_item(0, 7, _by_index=True, _inplace=ip), lambda b: b.labels, ["7", "b"]),
        ("with_hitem('a') [bare key, init=False key]", lambda: Box(), lambda b, ip: b.with_hitem("a", _inplace=ip), lambda b: [(i.k, i.v) for i in b.hitems], [("a", 0)]),
        ("with_hitem('a', v=3) [bare key, init=False key]", lambda: Box(), lambda b, ip: b.with_hitem("a", v=3, _inplace=ip), lambda b: [(i.k, i.v) for i in b.hitems], [("a", 3)]),
        ("with_hkl('a') [bare key, init=False key]", lambda: Box(), lambda b, ip: b.with_hkl("a", _inplace=ip), lambda b: [(i.k, i.v) for i in b.hkls], [("a", 0)]),
        ("with_hmap('a', 'b') [bare key, init=False key]", lambda: Box(), lambda b, ip: b.with_hmap("a", "b", _inplace=ip), lambda b: [(k, i.k, i.v) for k, i in b.hmaps.items()], [("a", "b", 0)]),
        ("with_hmap('a', v=2) [no key given, init=False key]", lambda: Box(), lambda b, ip: b.with_hmap("a", v=2, _inplace=ip), lambda b: [(k, i.k, i.v) for k, i in b.hmaps.items()], [("a", "none", 2)]),
        ("with_hitem(v=3) [no key given, init=False key]", lambda: Box(), lambda b, ip: b.with_hitem(v=3, _inplace=ip), lambda b: [(i.k, i.v) for i in b.hitems], [("none", 3)]),
        # one element object stored at several positions (in-place with_<item> stores what it is given): an update addresses one position
        ("update_item(0, v=5) [one object at three positions]", lambda: _same_thrice(Box, Item), lambda b, ip: b.update_item(0, v=5, _by_index=True, _inplace=ip), lambda b: [i.v for i in b.items], [5, 1, 1]),
        ("transform_item(1, v=inc) [one object at three positions]", lambda: _same_thrice(Box, Item), lambda b, ip: b.transform_item(1, v=lambda x: x + 1, _by_index=True, _inplace=ip), lambda b: [i.v for i in b.items], [1, 2, 1]),
        ("without_item(equal probe)", lambda: Box(items=[Item(v=1, note="keep"), Item(v=2, note="other")]), lambda b, ip: b.without_item(Item(v=1), _by_index=False, _inplace=ip),
         lambda b: [(i.v, i.note) for i in b.items], [(2, "other")]),
    ]
    for label, mk, call, view, want in cases:
        for ip in (False, True):
            ctx.count("helper_calls_judged")
            ctx.count("directed_by_value_cases")
            b = mk()
            del seen_args[:]
            feats = {"family": "directed", "hkind": label.split("(")[0].split("_")[0] + "_item", "addressing": "value:equal_not_identical", "inplace": ip}
            try:
                r = call(b, ip)
                got = view(r)
            except Exception as e:
                ctx.violation("container_model", f"Box.{label} (in place: {ip}) raised {type(e).__name__}: {e}; the plain-container operation gives {want}", features=feats, case=["directed", label, ip])
                continue
            if got != want:
                ctx.violation("container_model", f"Box.{label} (in place: {ip}): result {got}; the plain-container operation on the *stored* element gives {want}", features=feats, case=["directed", label, ip])
            elif seen_args and getattr(seen_args[0], "note", "keep") != "keep":
                ctx.violation("container_model", f"Box.{label} (in place: {ip}): the transform received the look-up value ({seen_args[0]!r}), not the stored element", features=feats, case=["directed", label, ip])
            ctx.sig("directed", label, ip)


def run(ctx, params):
    if params["mode"] == "directed":
        return run_directed(ctx)
    if params["mode"] == "exh":
        return run_exhaustive(ctx, params)
    return run_random(ctx, params)


def plan(tier, seed):
    if tier == "quick":
        return [{"mode": "directed"}] + [{"mode": "exh", "part": i, "parts": 8} for i in range(8)] + [{"mode": "rand", "shard": i, "cases": 50, "ops_per_case": 14} for i in range(8)]
    return [{"mode": "directed"}] + [{"mode": "exh", "part": i, "parts": 8} for i in range(8)] + [{"mode": "rand", "shard": i, "cases": 1200, "ops_per_case": 16} for i in range(23)]
