"""
C15 - the run-time type check accepts a value exactly when it conforms.

Monitor: differential oracle. For every generated (annotation term, value) pair
the real `check_type(value, build(term))` must return exactly
`refcheck.conforms(value, term)` and must not raise.
"""

from __future__ import annotations

import itertools

from vlib import refcheck
from vlib.core import safe_repr

PROP = "C15"
LEVEL = "exploration"
EVAL_COUNTER = "pairs_judged"
GATES = ["pairs_judged", "expected_accept", "expected_reject", "annotations"]
RULE = (
    "annotation terms enumerated (exhaustively up to the tier's depth over the constructor alphabet, "
    "seeded-random beyond) and, per annotation, one conforming value plus values failing at each structural "
    "position (element, key, value, tuple slot/length, union alternative, literal choice, bound edge, subclass); "
    "a case is (annotation label, value-position tag, expected verdict); distinct_nontrivial counts distinct such triples "
    "whose annotation is not Any"
)
ASSUMPTIONS = [
    "reference checker vlib/refcheck.py encodes the documented semantics (float accepts int/bool; Literal by ==)",
    "Fraction/Decimal and Type[...] of non-class arguments other than Any are outside the judged language (NaN is judged against bounded types only: it is within no bound)",
]
EXHAUSTIVE = {"quick": False, "thorough": False}


def make_env():
    from spec_classes import spec_class
    from spec_classes.types import KeyedList, KeyedSet

    class User:
        def __repr__(self):
            return f"{type(self).__name__}()"

    class UserSub(User):
        pass

    class Other:
        def __repr__(self):
            return "Other()"

    @spec_class(key="k", bootstrap=True)
    class Spec:
        k: str
        v: int = 0

    return {
        "classes": {
            "User": User,
            "UserSub": UserSub,
            "Other": Other,
            "Spec": Spec,
            "KeyedList": KeyedList,
            "KeyedSet": KeyedSet,
        }
    }


def atoms(env):
    c = env["classes"]
    return [
        ("int0", 0), ("int1", 1), ("intneg", -1), ("int2", 2), ("int5", 5),
        ("true", True), ("false", False),
        ("float0", 0.0), ("float", 1.5), ("floatneg", -0.5), ("floatint", 1.0),
        ("str0", ""), ("stra", "a"), ("strb", "b"), ("strx", "x"),
        ("bytes", b"a"), ("none", None),
        ("user", c["User"]()), ("usersub", c["UserSub"]()), ("other", c["Other"]()),
        ("spec", c["Spec"]("a")),
        ("cls_int", int), ("cls_bool", bool), ("cls_str", str), ("cls_user", c["User"]),
        ("cls_usersub", c["UserSub"]), ("cls_other", c["Other"]), ("cls_object", object), ("cls_spec", c["Spec"]),
        ("tuple0", ()), ("tuple1", (1,)), ("tuple_s", ("a",)), ("list0", []), ("list1", [1]), ("list_s", ["a"]),
        ("dict0", {}), ("dict1", {"a": 1}), ("set0", set()), ("set1", {1}), ("fset", frozenset({1})),
    ]


LEAVES = [
    ("any",),
    ("cls", "int"), ("cls", "float"), ("cls", "str"), ("cls", "bool"), ("cls", "bytes"), ("cls", "none"),
    ("cls", "User"), ("cls", "Spec"),
    ("literal", ["a", "b"]), ("literal", [1, "x"]), ("literal", [0]),
    ("bounded", "int", 0, None, None, None),
    ("bounded", "int", None, 0, None, None),
    ("bounded", "float", None, None, 0, None),
    ("bounded", "float", None, None, None, 0),
    ("bounded", "int", 1, None, None, 5),
    ("bounded", "float", None, -1, 2, None),
    ("validated", "even"), ("validated", "nonempty_str"),
]
HASHABLE_LEAVES = [t for t in LEAVES]  # all leaf value pools are hashable
TYPE_ARGS = [("any",), ("cls", "int"), ("cls", "str"), ("cls", "User"), ("cls", "UserSub"), ("cls", "object"), ("cls", "Spec"),
             # parameterised / structured arguments: only the origin class can be (and is) checked
             ("list", ("cls", "int"), "typing"), ("list", ("cls", "int"), "pep585"), ("dict", ("cls", "str"), ("cls", "int"), "typing"), ("vtuple", ("cls", "int"), "typing"),
             ("optional", ("list", ("cls", "int"), "typing")), ("union", [("cls", "str"), ("list", ("cls", "int"), "typing")], "typing"), ("none_literal",)]
NONE_ARG_TERMS = [  # the literal None as an argument of PEP 585 generics
    ("list", ("none_literal",), "pep585"), ("set", ("none_literal",), "pep585"), ("dict", ("cls", "str"), ("none_literal",), "pep585"), ("dict", ("none_literal",), ("cls", "int"), "pep585"),
    ("tuple", [("cls", "int"), ("none_literal",)], "pep585"), ("vtuple", ("none_literal",), "pep585"), ("optional", ("list", ("none_literal",), "pep585")),
    ("dict", ("cls", "str"), ("list", ("none_literal",), "pep585"), "typing"),
]
SMALL = [("cls", "int"), ("cls", "str"), ("cls", "none"), ("cls", "User"), ("literal", ["a", "b"]), ("bounded", "int", 0, None, None, None)]


def hashable_term(term):
    k = term[0]
    if k in ("list", "set", "dict"):
        return False
    if k in ("tuple", "union"):
        return all(hashable_term(t) for t in term[1])
    if k in ("vtuple", "optional"):
        return hashable_term(term[1])
    return True


def wrap_all(inner_terms, rng=None, sample=None):
    """All depth+1 terms over the given inner terms (optionally subsampled binary ones)."""
    out = []
    for t in inner_terms:
        for style in ("typing", "pep585"):
            out.append(("list", t, style))
            out.append(("vtuple", t, style))
            out.append(("tuple", [t], style))
            if hashable_term(t):
                out.append(("set", t, style))
        out.append(("optional", t))
    for style in ("typing", "pep585"):
        out.append(("tuple", [], style))
        for t in TYPE_ARGS:
            if t == ("none_literal",) and style == "typing":
                continue  # typing.Type[None] is normalised to Type[NoneType] by typing itself
            out.append(("type", t, style))
    out += NONE_ARG_TERMS
    pairs = list(itertools.product(inner_terms, SMALL))
    if sample is not None and rng is not None and len(pairs) > sample:
        pairs = rng.sample(pairs, sample)
    for a, b in pairs:
        for style in ("typing", "pep585"):
            if hashable_term(b):
                out.append(("dict", b, a, style))
            out.append(("tuple", [a, b], style))
            out.append(("tuple", [b, a, b], style))
        if a != b:
            out.append(("union", [a, b], "typing"))
            if a[0] not in ("any", "literal") and b[0] not in ("any", "literal") and a != ("cls", "none"):
                out.append(("union", [a, b], "pep604"))
    return out


def random_term(rng, depth):
    if depth == 0 or rng.random() < 0.15:
        return rng.choice(LEAVES)
    k = rng.choice(["list", "set", "dict", "tuple", "vtuple", "type", "union", "optional", "list", "dict"])
    style = rng.choice(["typing", "pep585"])
    if k == "list":
        return ("list", random_term(rng, depth - 1), style)
    if k == "set":
        for _ in range(5):
            t = random_term(rng, depth - 1)
            if hashable_term(t):
                return ("set", t, style)
        return ("set", rng.choice(SMALL), style)
    if k == "dict":
        for _ in range(5):
            kt = random_term(rng, min(1, depth - 1))
            if hashable_term(kt):
                break
        else:
            kt = ("cls", "str")
        return ("dict", kt, random_term(rng, depth - 1), style)
    if k == "tuple":
        return ("tuple", [random_term(rng, depth - 1) for _ in range(rng.randint(0, 3))], style)
    if k == "vtuple":
        return ("vtuple", random_term(rng, depth - 1), style)
    if k == "type":
        return ("type", rng.choice(TYPE_ARGS), style)
    if k == "union":
        alts = [random_term(rng, depth - 1) for _ in range(rng.randint(2, 3))]
        st = rng.choice(["typing", "pep604"])
        if st == "pep604" and any(a[0] in ("any", "literal", "optional", "union") or a == ("cls", "none") for a in alts[:1]):
            st = "typing"
        if st == "pep604" and any(a[0] in ("any", "literal") for a in alts):
            st = "typing"
        return ("union", alts, st)
    return ("optional", random_term(rng, depth - 1))


# -- values ---------------------------------------------------------------


def conforming(term, env, rng):
    """One value built to conform to `term` (constructively)."""
    k = term[0]
    c = env["classes"]
    if k == "any":
        return rng.choice([0, "a", None, (1, "t"), c["Other"]()])
    if k == "cls":
        n = term[1]
        return {
            "int": lambda: rng.choice([0, 1, -3, 7, True]),
            "float": lambda: rng.choice([0.0, 1.5, -2.25, 3, False]),
            "str": lambda: rng.choice(["", "a", "xyz"]),
            "bool": lambda: rng.choice([True, False]),
            "bytes": lambda: rng.choice([b"", b"ab"]),
            "none": lambda: None,
            "object": lambda: object(),
            "User": lambda: rng.choice([c["User"], c["UserSub"]])(),
            "UserSub": lambda: c["UserSub"](),
            "Other": lambda: c["Other"](),
            "Spec": lambda: c["Spec"](rng.choice(["a", "b"])),
        }[n]()
    if k == "list":
        return [conforming(term[1], env, rng) for _ in range(rng.randint(0, 3))]
    if k == "none_literal":
        return None
    if k == "set":
        return {conforming(term[1], env, rng) for _ in range(rng.randint(0, 3))}
    if k == "dict":
        return {conforming(term[1], env, rng): conforming(term[2], env, rng) for _ in range(rng.randint(0, 3))}
    if k == "tuple":
        return tuple(conforming(t, env, rng) for t in term[1])
    if k == "vtuple":
        return tuple(conforming(term[1], env, rng) for _ in range(rng.randint(0, 3)))
    if k == "type":
        if term[1][0] == "any":
            return rng.choice([int, c["Other"], str])
        pool = [bool, int, str, list, dict, tuple, type(None), c["UserSub"], c["User"], c["Other"]] + ([refcheck.resolve_class(term[1][1], env)] if term[1][0] == "cls" else [])
        subs = [x for x in pool if refcheck.subclass_conforms(x, term[1], env)]
        return rng.choice(subs) if subs else int  # (Type[Literal[...]] has no conforming class: the caller's reference decides)
    if k == "union":
        return conforming(rng.choice(term[1]), env, rng)
    if k == "optional":
        return None if rng.random() < 0.3 else conforming(term[1], env, rng)
    if k == "literal":
        return rng.choice(term[1])
    if k == "bounded":
        base, ge, gt, le, lt = term[1:6]
        lo = ge if ge is not None else (gt + 1 if gt is not None else None)
        hi = le if le is not None else (lt - 1 if lt is not None else None)
        if lo is None and hi is None:
            v = 0
        elif lo is None:
            v = hi - rng.randint(0, 3)
        elif hi is None:
            v = lo + rng.randint(0, 3)
        else:
            v = rng.randint(lo, hi) if lo <= hi else lo
        return v
    if k == "validated":
        return {"even": lambda: rng.choice([0, 2, -4]), "nonempty_str": lambda: rng.choice(["a", "zz"]), "truthy": lambda: 1}[term[1]]()
    raise ValueError(term)


NAN = float("nan")


def edge_values(term):
    """Boundary probes for leaf terms: (tag, value)."""
    k = term[0]
    out = []
    if k == "bounded":
        for name, b in zip(("ge", "gt", "le", "lt"), term[2:6]):
            if b is None:
                continue
            for d, dn in ((-1, "below"), (0, "at"), (1, "above")):
                out.append((f"{name}_{dn}", b + d))
                out.append((f"{name}_{dn}_f", float(b + d) + (0.0 if d == 0 else -0.5 * d)))
        out.append(("bool_true", True))
        out.append(("str", "1"))
        out.append(("nan", NAN))  # a float that is within no bound (every comparison with it is false)
    if k == "literal":
        for choice in term[1]:
            out.append(("choice", choice))
        out += [("near_miss", "A"), ("near_miss_int", 2), ("eq_other_type", 1.0), ("eq_bool", True), ("eq_false", False), ("unhashable", ["a"])]
    if k == "validated":
        out += [("odd", 3), ("even", 4), ("empty", ""), ("str", "q"), ("bool", True), ("float_even", 2.0)]
    return out


def variants(term, env, rng, atom_list, budget):
    """
    Yield (tag, value) pairs aimed at every structural position of `term`.
    `budget` bounds how many sub-variants are propagated from children.
    """
    k = term[0]
    yield ("ok", conforming(term, env, rng))
    for tag, v in edge_values(term):
        yield (f"edge:{tag}", v)
    # top level: every atom
    for tag, v in atom_list:
        yield (f"atom:{tag}", v)

    def sub(t):
        vs = list(variants(t, env, rng, atom_list, max(3, budget // 3)))
        if len(vs) > budget:
            head = [x for x in vs if not x[0].startswith("atom:")]
            tail = [x for x in vs if x[0].startswith("atom:")]
            rng.shuffle(tail)
            vs = (head + tail)[:budget] if len(head) < budget else rng.sample(head, budget)
        return vs

    if k in ("list", "set", "vtuple"):
        inner = term[1]
        for tag, v in sub(inner):
            others = [conforming(inner, env, rng) for _ in range(rng.randint(0, 2))]
            pos = rng.randint(0, len(others))
            seq = others[:pos] + [v] + others[pos:]
            try:
                val = list(seq) if k == "list" else (set(seq) if k == "set" else tuple(seq))
            except TypeError:
                continue  # unhashable element for a set: not constructible
            yield (f"elem@{'first' if pos == 0 else ('last' if pos == len(others) else 'mid')}:{tag}", val)
        good = [conforming(inner, env, rng) for _ in range(2)]
        if k == "list":
            yield ("family:tuple", tuple(good))
            yield ("family:empty", [])
        elif k == "set":
            yield ("family:list", list(good))
            yield ("family:frozenset", frozenset(good))
            yield ("family:empty", set())
        else:
            yield ("family:list", list(good))
            yield ("family:empty", ())
    elif k == "dict":
        for tag, v in sub(term[1]):
            try:
                d = {conforming(term[1], env, rng): conforming(term[2], env, rng)}
                d[v] = conforming(term[2], env, rng)
            except TypeError:
                continue
            yield (f"key:{tag}", d)
        for tag, v in sub(term[2]):
            d = {conforming(term[1], env, rng): conforming(term[2], env, rng) for _ in range(rng.randint(0, 2))}
            d[conforming(term[1], env, rng)] = v
            yield (f"value:{tag}", d)
        yield ("family:empty", {})
        yield ("family:pairs", [(conforming(term[1], env, rng), conforming(term[2], env, rng))])
    elif k == "tuple":
        n = len(term[1])
        for i, t in enumerate(term[1]):
            for tag, v in sub(t):
                vals = [conforming(x, env, rng) for x in term[1]]
                vals[i] = v
                yield (f"slot{i}/{n}:{tag}", tuple(vals))
        good = [conforming(x, env, rng) for x in term[1]]
        yield ("len:short", tuple(good[:-1]) if good else ())
        yield ("len:long", tuple(good + (good[-1:] or [0])))
        yield ("len:empty", ())
        yield ("family:list", list(good))
    elif k == "type":
        pass  # atoms contain classes and non-classes
    elif k == "union":
        for i, t in enumerate(term[1]):
            for tag, v in sub(t):
                yield (f"alt{i}:{tag}", v)
    elif k == "optional":
        yield ("none", None)
        for tag, v in sub(term[1]):
            yield (f"inner:{tag}", v)


# -- shards ---------------------------------------------------------------


def plan(tier, seed):
    if tier == "quick":
        return [{"mode": "exh1"}] + [{"mode": "exh2", "part": i, "parts": 6, "stride": 6} for i in range(6)] + [
            {"mode": "rand", "n": 250, "depth": 3, "part": i} for i in range(8)
        ]
    return (
        [{"mode": "exh1"}]
        + [{"mode": "exh2", "part": i, "parts": 14, "stride": 1} for i in range(14)]
        + [{"mode": "rand", "n": 2500, "depth": 3, "part": i} for i in range(16)]
    )


def terms_for(params, rng):
    mode = params["mode"]
    if mode == "exh1":
        return list(LEAVES) + wrap_all(LEAVES)
    if mode == "exh2":
        d1 = wrap_all(LEAVES)
        # deterministic full enumeration of depth-2 terms, split over `parts`, optionally strided
        d2 = wrap_all(d1, rng=rng, sample=None)
        mine = d2[params["part"] :: params["parts"]]
        return mine[:: params.get("stride", 1)]
    return [random_term(rng, params["depth"]) for _ in range(params["n"])]


def run(ctx, params):
    from spec_classes.utils.type_checking import check_type

    env = make_env()
    atom_list = atoms(env)
    rng = ctx.rng
    budget = 10 if ctx.tier == "quick" else 14
    for idx, term in enumerate(terms_for(params, rng)):
        try:
            ann = refcheck.build(term, env)
        except TypeError:
            ctx.count("unbuildable_terms")
            continue
        lab = refcheck.label(term)
        ctx.count("annotations")
        ctx.count(f"annotations_depth{refcheck.depth(term)}")
        for tag, value in variants(term, env, rng, atom_list, budget):
            if ctx.only_case is not None and [idx, tag] != ctx.only_case[:2]:
                continue
            expected = refcheck.conforms(value, term, env)
            if tag == "ok" and not expected:
                raise AssertionError(f"harness: constructed value {value!r} does not conform to {lab}")
            try:
                got = check_type(value, ann)
                raised = None
            except BaseException as e:  # noqa
                got, raised = None, e
            ctx.count("pairs_judged")
            ctx.count("expected_accept" if expected else "expected_reject")
            shape_tag = tag.split(":")[0]  # position class (elem@first, key, slot1/2, alt0, edge, atom, ok, ...)
            if term[0] != "any":
                ctx.sig(lab, shape_tag, expected)
            case = [idx, tag, lab, safe_repr(value, 120)]
            if raised is not None:
                ctx.violation(
                    "check_type_total",
                    f"check_type({safe_repr(value, 80)}, {lab}) raised {type(raised).__name__}: {raised}",
                    features={"term_kind": term[0], "label": lab, "tag": tag, "exc": type(raised).__name__},
                    case=case,
                )
            elif bool(got) != expected:
                ctx.violation(
                    "check_type_differential",
                    f"check_type({safe_repr(value, 80)}, {lab}) = {got!r}, reference says {expected}",
                    features={"term_kind": term[0], "label": lab, "tag": tag, "expected": expected},
                    case=case,
                )
            if idx % 97 == 0 and tag.startswith(("elem", "value", "slot", "alt", "edge")):
                ctx.sample({"annotation": lab, "value": safe_repr(value, 100), "position": tag, "expected": expected, "got": got}, slot=(lab, tag))
