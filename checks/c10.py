"""
C10 - equality, copying and repr are coherent and total.

Monitors (reference comparison over the harness's own record of which attributes are compare-/repr-enabled):
 E1 pairs:   x == y  iff every compare-enabled attribute is equal (missing equals only missing; bound methods compare by
             function), x != y is its negation, y == x agrees (symmetry);
 E2 one-off: for every attribute position and every ordering of attribute kinds before it, two instances differing in
             exactly that attribute are unequal iff the attribute is compare-enabled;
 E3 triples: transitivity over the pool (and symmetry/transitivity only across class / subclass pairs);
 E4 copies:  deepcopy(x) == x and type(x)(**attributes of x) == x;
 R  repr:    never raises (missing values, self references, cycles, empty containers, long values forcing the indented
             form) and names exactly the repr-enabled attributes in declaration order at nesting depth 0.
"""

from __future__ import annotations

import copy
import itertools

from vlib import classgen as cg
from vlib.core import safe_repr

PROP = "C10"
LEVEL = "exploration"
EVAL_COUNTER = "comparisons_judged"
RULE = (
    "classes with 3-6 attributes drawn (with every ordering) from the kinds {int, str, list, nested spec, bound method of the "
    "instance, function, class, module, Any} with random compare/repr flags, lazy or eager, plus a spec subclass and a plain subclass; "
    "instance pools = base instance, every one-attribute variant (other value / missing) at every position, random instances; all "
    "pairs, sampled triples, deepcopy and re-construction of every instance, repr of every instance incl. self-referential and long "
    "ones; distinct by (kinds before the differing position, differing kind, compare flag, verdict / repr form)"
)
ASSUMPTIONS = [
    "bound methods are equal iff they wrap the same function (the library's documented intent for method-valued attributes)",
    "exact truth value of == between an instance and an instance of a sub/superclass is not judged (only symmetry and transitivity)",
]
KINDS = ["int", "str", "list", "leaf", "method", "func", "cls", "mod", "any", "masked", "speccls", "ownrepr", "boundfn", "nan", "extbound", "nameless"]
ANN = {"int": "int", "str": "str", "list": "List[int]", "leaf": "Leaf", "method": "Callable", "func": "Callable", "cls": "type", "mod": "Any", "any": "Any", "masked": "Callable", "speccls": "type", "ownrepr": "OwnRepr", "boundfn": "Callable", "nan": "float", "extbound": "Callable", "nameless": "Callable"}


def GATES(tier):
    return [("comparisons_judged", 2000), ("one_off_pairs", 300), ("triples_checked", 200), ("copies_checked", 100), ("reprs_checked", 300),
            ("repr_self_reference", 10), ("repr_indented", 10), ("method_before_difference", 20), ("subclass_pairs", 50), ("subclass_triples", 200), ("reflexive_checked", 200), ("self_referential_copies", 10), ("self_referential_copies_compared", 10), ("repr_keyed_child_missing_key", 10)] + [(f"diff_kind:{k}", 5) for k in KINDS]


SRC_HEAD = '''
import math, json
from typing import Any, Callable, List
from spec_classes import spec_class, Attr
from spec_classes.types import KeyedSet

def f1(): return 1
def f2(): return 2

NAN = float("nan")  # one object: identical values are equal, as for the elements of builtin containers

def detached_a(self): return "detached a"
detached_a.__name__ = "helper"  # same name as a method of the class, different function
def detached_b(self): return "detached b"  # a name the class does not have

class Target:  # a plain value object with a method: two targets with the same n are equal, their bound methods are not identical
    def __init__(self, n):
        self.n = n
    def __eq__(self, other):
        return isinstance(other, Target) and other.n == self.n
    __hash__ = None
    def __repr__(self):
        return f"Target({self.n})"
    def hit(self):
        return self.n

class Nameless:  # a callable without __name__ (like functools.partial); atomic under deepcopy, as functions are
    def __init__(self, tag):
        self.tag = tag
    def __call__(self, receiver):
        return self.tag
    def __deepcopy__(self, memo):
        return self

NAMELESS = [Nameless(0), Nameless(1)]

@spec_class(bootstrap=True)
class Leaf:
    v: int = 0

@spec_class(bootstrap=True)
class OwnRepr:
    v: int = 0

    def __repr__(self):  # hand-written, takes no rendering options
        return f"<OwnRepr {self.v}>"

@spec_class(key="k", bootstrap=True)
class KL:
    k: str
    v: int = 0

'''


def make_source(kinds, flags, boot):
    lines = [SRC_HEAD, f"@spec_class(bootstrap={boot})", "class E:"]
    for i, (k, (cmp_, rep)) in enumerate(zip(kinds, flags)):
        opts = []
        if not cmp_:
            opts.append("compare=False")
        if not rep:
            opts.append("repr=False")
        lines.append(f"    a{i}: {ANN[k]}" + (f" = Attr({', '.join(opts)})" if opts else ""))
    for i, k in enumerate(kinds):
        if k == "masked":  # the attribute is masked by a method of the same name unless overridden on the instance
            lines += [f"    def a{i}(self):", f"        return 'class-level a{i}'"]
    lines += ["    def helper(self):", "        return 1", "    def other(self):", "        return 2", ""]
    redefault = {"int": "    a0 = 0", "str": "    a0 = 'a'"}.get(kinds[0])
    lines += [f"@spec_class(bootstrap={boot})", "class F(E):", "    extra: int = 0"] + ([redefault + "  # re-defaulted: compare / repr settings of E.a0 still apply"] if redefault else []) + ["", "class G(E):", "    pass", ""]
    return "\n".join(lines)


def value(ns, kind, which, inst):
    """which: 0 / 1 = two distinct values of the kind (fresh objects for mutable kinds)."""
    import json
    import math

    if kind == "int":
        return [0, 1][which]
    if kind == "str":
        return ["a", "b"][which]
    if kind == "list":
        return [[1], [2]][which]
    if kind == "leaf":
        return ns["Leaf"](v=which + 1)
    if kind == "method":
        return [inst.helper, inst.other][which]
    if kind in ("func", "masked"):
        return [ns["f1"], ns["f2"]][which]
    if kind == "cls":
        return [int, str][which]
    if kind == "speccls":  # a spec class object (not an instance) as a value
        return [ns["Leaf"], ns["KL"]][which]
    if kind == "boundfn":  # a method bound to the instance whose function is not what its name resolves to on the class
        import types

        return types.MethodType([ns["detached_a"], ns["detached_b"]][which], inst)
    if kind == "extbound":  # a method of some *other* object: equal only if the receivers are (a fresh, equal receiver per call)
        return ns["Target"](which + 1).hit
    if kind == "nameless":  # a bound method whose callable has no __name__
        import types

        return types.MethodType(ns["NAMELESS"][which], inst)
    if kind == "ownrepr":
        return ns["OwnRepr"](v=which + 1)
    if kind == "nan":
        return [ns["NAN"], 1.5][which]
    if kind == "mod":
        return [math, json][which]
    if kind == "any":
        return [("t", 1), ("t", 2)][which]
    raise ValueError(kind)


def build(ns, cname, kinds, choice):
    """choice[i] in {0, 1, None(missing)}."""
    cls = ns[cname]
    inst = cls()
    for i, (k, c) in enumerate(zip(kinds, choice)):
        if c is not None:
            setattr(inst, f"a{i}", value(ns, k, c, inst))
    return inst


def ref_equal_values(va, vb, oa=None, ob=None):
    import inspect

    if va is vb:
        return True  # identical values are equal (as for the elements of builtin containers), NaN included
    if inspect.ismethod(va) and inspect.ismethod(vb):
        # the same function, bound to receivers that stand for each other: each operand's own method, or equal receivers
        if va.__func__ is not vb.__func__:
            return False
        return (va.__self__ is oa and vb.__self__ is ob) or va.__self__ is vb.__self__ or va.__self__ == vb.__self__
    return va == vb


def ref_equal(kinds, flags, ca, cb):
    """Reference verdict from the construction choices (not from the instances)."""
    for k, (cmp_, _r), a, b in zip(kinds, flags, ca, cb):
        if not cmp_:
            continue
        if a != b:
            return False
    return True


def top_level_names(text, clsname):
    """Attribute names at nesting depth 0 of a spec-class repr (bracket- and quote-aware scan)."""
    if not text.startswith(clsname + "("):
        return None
    body = text[len(clsname) + 1 :]
    depth, i, names, seg_start = 0, 0, [], True
    n = len(body)
    while i < n:
        ch = body[i]
        if ch in "\"'":
            q = ch
            i += 1
            while i < n and body[i] != q:
                i += 2 if body[i] == "\\" else 1
            i += 1
            seg_start = False
            continue
        if ch in "([{<":
            depth += 1
        elif ch in ")]}>":
            if depth == 0:
                break
            depth -= 1
        elif ch == "," and depth == 0:
            seg_start = True
            i += 1
            continue
        elif depth == 0 and seg_start and (ch.isalpha() or ch == "_"):
            j = i
            while j < n and (body[j].isalnum() or body[j] == "_"):
                j += 1
            if j < n and body[j] == "=":
                names.append(body[i:j])
                i = j
            seg_start = False
            continue
        if not ch.isspace():
            seg_start = False
        i += 1
    return names


def run(ctx, params):
    rng = ctx.rng
    for ci in range(params["classes"]):
        n = rng.randint(3, 6)
        kinds = [rng.choice(KINDS) for _ in range(n)]
        if ci % 3 == 0 and "method" not in kinds[:-1]:
            kinds[rng.randrange(0, n - 1)] = "method"  # a method-valued attribute *before* others
        flags = [(rng.random() < 0.8, rng.random() < 0.8) for _ in range(n)]
        # a masked attribute's class-level value is the method itself, so it cannot also carry Attr(...) flags
        flags = [(True, True) if k == "masked" else f for k, f in zip(kinds, flags)]
        boot = rng.random() < 0.5
        src = make_source(kinds, flags, boot)
        ns = cg.exec_module(src, prefix="verif_c10").__dict__
        shape = {"kinds": kinds, "lazy": not boot}
        base_choice = [0] * n
        pool = [("E", base_choice)]
        one_offs = []
        for i in range(n):
            for alt in (1, None):
                c = list(base_choice)
                c[i] = alt
                pool.append(("E", c))
                one_offs.append((i, alt, c))
        for _ in range(params["random_instances"]):
            pool.append(("E", [rng.choice([0, 1, None]) for _ in range(n)]))
        insts = [(cn, c, build(ns, cn, kinds, c)) for cn, c in pool]
        case_base = [params.get("shard"), ci]

        def report(monitor, what, **feats):
            ctx.violation(monitor, what, features=dict({"kinds": kinds}, **feats), case=case_base, source=src[-900:])

        # E2: exactly-one-attribute differences, judged against the base instance
        base = insts[0][2]
        for i, alt, c in one_offs:
            other = build(ns, "E", kinds, c)
            expected = not flags[i][0]  # equal iff the differing attribute is not compare-enabled
            try:
                got, got_r, ne = (base == other), (other == base), (base != other)
            except Exception as e:
                report("eq_total", f"== raised {type(e).__name__}: {e} comparing instances differing in a{i} ({kinds[i]})", position=i, diff_kind=kinds[i])
                continue
            ctx.count("comparisons_judged")
            ctx.count("one_off_pairs")
            ctx.count(f"diff_kind:{kinds[i]}")
            before = kinds[:i]
            if "method" in before:
                ctx.count("method_before_difference")
            ctx.sig("one_off", tuple(sorted(set(before))), kinds[i], flags[i][0], "missing" if alt is None else "value", expected)
            if got is not expected or got_r is not expected or ne is expected:
                report(
                    "eq_one_attribute_difference",
                    f"instances differing only in a{i} ({kinds[i]}, compare={flags[i][0]}, {'missing' if alt is None else 'other value'}) with kinds before it {before}: "
                    f"x == y -> {got}, y == x -> {got_r}, x != y -> {ne}; expected == to be {expected}",
                    position=i, diff_kind=kinds[i], compare=flags[i][0], kinds_before=sorted(set(before)), alt="missing" if alt is None else "value",
                )
        # E1: all pairs of the pool
        results = {}
        for (ia, (cna, ca, xa)), (ib, (cnb, cb, xb)) in itertools.combinations(enumerate(insts), 2):
            try:
                r1, r2, ne = (xa == xb), (xb == xa), (xa != xb)
            except Exception as e:
                report("eq_total", f"== raised {type(e).__name__}: {e}")
                continue
            ctx.count("comparisons_judged")
            results[(ia, ib)] = r1
            expected = ref_equal(kinds, flags, ca, cb)
            if r1 is not expected or r2 is not r1 or ne is r1:
                diffpos = [i for i, (a, b) in enumerate(zip(ca, cb)) if a != b]
                report("eq_pairs", f"x == y -> {r1}, y == x -> {r2}, x != y -> {ne}; reference says {expected}; attributes differing: {[(i, kinds[i], flags[i][0]) for i in diffpos]}",
                       diff_kinds=sorted({kinds[i] for i in diffpos}), expected=expected)
        # reflexivity (also for values that are not equal to themselves, and for the instance holding them)
        for cn, c, x in insts:
            ctx.count("comparisons_judged")
            ctx.count("reflexive_checked")
            try:
                r = x == x
            except Exception as e:
                report("eq_total", f"x == x raised {type(e).__name__}: {e}")
                continue
            if r is not True:
                present = [kinds[i] for i, v in enumerate(c) if v is not None]
                report("eq_reflexive", f"x == x -> {r} for an instance holding kinds {present}", kinds_present=sorted(set(present)))
        # E3: transitivity on sampled triples
        idx = list(range(len(insts)))
        for _ in range(params["triples"]):
            a, b, c = sorted(rng.sample(idx, 3))
            ctx.count("triples_checked")
            if results.get((a, b)) and results.get((b, c)) and not results.get((a, c)):
                report("eq_transitive", f"x == y and y == z but x != z for pool items {a}, {b}, {c}")
        # subclass pairs: symmetry and transitivity only
        subs = [build(ns, cn, kinds, c) for cn in ("F", "G") for c in (base_choice, [1] + base_choice[1:])]
        f_extra = build(ns, "F", kinds, base_choice)
        f_extra.extra = 1  # differs from the first F instance only in the attribute the subclass adds
        mixed = [base] + subs + [f_extra]
        across = {}
        for (ia, xa), (ib, xb) in itertools.combinations(enumerate(mixed), 2):
            ctx.count("subclass_pairs")
            try:
                r1, r2 = (xa == xb), (xb == xa)
            except Exception as e:
                report("eq_total", f"== across classes raised {type(e).__name__}: {e}")
                continue
            if r1 is not r2:
                report("eq_symmetric_across_classes", f"{type(xa).__name__} == {type(xb).__name__} -> {r1} but reversed -> {r2}")
            across[(ia, ib)] = across[(ib, ia)] = bool(r1)
            if type(xa) is type(xb):
                same = all(ref_equal_values(xa.__dict__.get(k, cg), xb.__dict__.get(k, cg), xa, xb) for k in set(xa.__dict__) | set(xb.__dict__)
                           if not k.startswith("a") or flags[int(k[1:])][0])
                if bool(r1) is not same:
                    report("eq_pairs", f"two {type(xa).__name__} instances: == -> {r1}, reference says {same}", expected=same, diff_kinds=["subclass_attr"])
        for a, b, c in itertools.permutations(range(len(mixed)), 3):
            ctx.count("subclass_triples")
            if across.get((a, b)) and across.get((b, c)) and across.get((a, c)) is False:
                report("eq_transitive_across_classes", f"{type(mixed[a]).__name__} == {type(mixed[b]).__name__} and {type(mixed[b]).__name__} == {type(mixed[c]).__name__} "
                       f"but the first != the third ({safe_repr(mixed[a], 60)} / {safe_repr(mixed[b], 60)} / {safe_repr(mixed[c], 60)})")
        # E4: copies
        for cn, c, x in insts[: params["copies"]]:
            ctx.count("copies_checked")
            try:
                y = copy.deepcopy(x)
                ok = (y == x) and (x == y)
            except Exception as e:
                report("deepcopy_equal", f"deepcopy / == raised {type(e).__name__}: {e} for choice {c}")
                continue
            if not ok:
                present = [kinds[i] for i, v in enumerate(c) if v is not None]
                report("deepcopy_equal", f"deepcopy(x) != x for an instance holding kinds {present}: x={safe_repr(x, 120)} copy={safe_repr(y, 120)}", kinds_present=sorted(set(present)))
            try:
                kw = {f"a{i}": x.__dict__[f"a{i}"] for i in range(n) if f"a{i}" in x.__dict__}
                z = ns[cn](**kw)
                if not (z == x):
                    present = [kinds[i] for i, v in enumerate(c) if v is not None]
                    report("reconstruct_equal", f"{cn}(**attributes of x) != x for kinds {present}", kinds_present=sorted(set(present)))
            except Exception as e:
                report("reconstruct_equal", f"re-construction raised {type(e).__name__}: {e}")
        # R: repr
        expected_names = [f"a{i}" for i in range(n) if flags[i][1]]
        specials = []
        anys = [i for i, k in enumerate(kinds) if k in ("any", "mod")]
        if anys:
            s1 = build(ns, "E", kinds, base_choice)
            setattr(s1, f"a{anys[0]}", s1)
            specials.append(("self_reference", s1))
            s2 = build(ns, "E", kinds, base_choice)
            setattr(s2, f"a{anys[0]}", [s2, {"k": s2}])
            specials.append(("self_in_container", s2))
            p, q = build(ns, "E", kinds, base_choice), build(ns, "E", kinds, base_choice)
            setattr(p, f"a{anys[0]}", q)
            setattr(q, f"a{anys[0]}", p)
            specials.append(("cycle", p))
            # an instance that is a member of a keyed set it holds itself
            s7 = build(ns, "E", kinds, base_choice)
            setattr(s7, f"a{anys[0]}", ns["KeyedSet"]([s7], key=id))
            specials.append(("self_in_keyed_set", s7))
            # copies of self-referential instances: terminate, and refer to themselves
            for label, x in list(specials)[:3]:
                ctx.count("copies_checked")
                ctx.count("self_referential_copies")
                try:
                    y = copy.deepcopy(x)
                    v = getattr(y, f"a{anys[0]}")
                    inner = v if label == "self_reference" else (v[0] if label == "self_in_container" else getattr(v, f"a{anys[0]}", None))
                    ok = (inner is y) if label != "cycle" else (inner is y and v is not x and v is not y)
                    if not ok:
                        report("deepcopy_equal", f"deepcopy of a {label} instance does not reproduce the self reference", label=label)
                    elif not (y == y):
                        report("eq_reflexive", f"the deepcopy of a {label} instance is not equal to itself", label=label)
                    elif not (y == x and x == y):
                        report("deepcopy_equal", f"deepcopy(x) != x for a {label} instance", label=label)
                    else:
                        ctx.count("self_referential_copies_compared")
                except BaseException as e:  # noqa
                    report("deepcopy_equal", f"deepcopy / == of a {label} instance raised {type(e).__name__}: {str(e)[:80]}", label=label)
            # a keyed nested spec instance whose key is missing (rendered compactly as a child, and inside containers)
            for how in ("direct", "in_list", "in_dict"):
                kl = ns["KL"]("a")
                del kl.k
                s6 = build(ns, "E", kinds, base_choice)
                setattr(s6, f"a{anys[0]}", kl if how == "direct" else ([kl, kl] if how == "in_list" else {"x": kl, "long key to force the indented form " * 3: kl}))
                specials.append((f"keyed_child_missing_key:{how}", s6))
        strs = [i for i, k in enumerate(kinds) if k == "str"]
        if strs:
            s3 = build(ns, "E", kinds, base_choice)
            setattr(s3, f"a{strs[0]}", "long value, with = and ( brackets ] and 'quotes' " * 4)
            specials.append(("long", s3))
        lists = [i for i, k in enumerate(kinds) if k == "list"]
        if lists:
            s4 = build(ns, "E", kinds, base_choice)
            setattr(s4, f"a{lists[0]}", list(range(60)))
            specials.append(("long_list", s4))
            s5 = build(ns, "E", kinds, base_choice)
            setattr(s5, f"a{lists[0]}", [])
            specials.append(("empty_container", s5))
        for label, x in [("pool", t[2]) for t in insts] + specials:
            ctx.count("reprs_checked")
            if label.startswith("keyed_child_missing_key"):
                ctx.count("repr_keyed_child_missing_key")
            if label in ("self_reference", "self_in_container", "cycle", "self_in_keyed_set"):
                ctx.count("repr_self_reference")
            try:
                text = repr(x)
            except BaseException as e:  # noqa
                report("repr_total", f"repr raised {type(e).__name__}: {e} for a {label} instance", label=label)
                continue
            if "\n" in text:
                ctx.count("repr_indented")
            names = top_level_names(text, type(x).__name__)
            ctx.sig("repr", label, "\n" in text, tuple(k for k, f in zip(kinds, flags) if f[1])[:4])
            if names != expected_names:
                report("repr_lists_repr_enabled_attributes", f"repr of a {label} instance names {names} at depth 0, expected {expected_names}: {safe_repr(text, 200)}", label=label)
        if ci % 40 == 0:
            ctx.sample({"kinds": kinds, "flags(compare,repr)": flags, "lazy": not boot, "pool_size": len(insts), "base_repr": safe_repr(repr(base), 160)})


def plan(tier, seed):
    if tier == "quick":
        return [{"shard": i, "classes": 14, "random_instances": 10, "triples": 40, "copies": 12} for i in range(16)]
    return [{"shard": i, "classes": 300, "random_instances": 20, "triples": 200, "copies": 40} for i in range(32)]
