"""
C02 - derived copies share no mutable state with the original (do_not_copy excepted).

Monitors, applied to every non-raising copy-on-write helper call and deepcopy
producing X from R:
 (a) identity graph: mutable nodes reachable from X and from R may intersect
     only in objects reachable from this call's arguments or from R's
     do_not_copy attribute values; untouched do_not_copy attributes must be the
     identical object in X;
 (a0) a copy-on-write call that is not a documented no-op never returns R itself;
 (b) differential: k in-place mutations (assignment, deletion, _inplace helpers,
     direct mutation of nested containers / nested spec instances) are applied
     to X and the snapshot of R's non-do_not_copy state must not change, and
     vice versa.
"""

from __future__ import annotations

import copy

from vlib import classgen as cg
from vlib import conform
from vlib import driver as dr
from vlib.core import safe_repr
from vlib.snap import mutable_nodes, snap

PROP = "C02"
LEVEL = "exploration"
EVAL_COUNTER = "copies_judged"
RULE = (
    "seeded class definitions (incl. do_not_copy attributes via decorator list and Attr(do_not_copy=True)) x histories x one "
    "copy-producing call (every copy-on-write helper kind/form with freshly built arguments and pure transforms, or deepcopy), "
    "followed by 1-4 in-place mutations of the result and then of the receiver; distinct by (helper kind, call form, attribute type, "
    "do_not_copy involvement, class shape, follow-up mutation kinds)"
)
ASSUMPTIONS = [
    "functions, classes, modules, bound methods and immutables are never counted as shared state",
    "sharing with the call's own arguments and through do_not_copy attributes is allowed; do_not_copy attributes are excluded from the differential comparison",
    "classes declared do_not_copy=True as a whole and frozen classes are never the judged receiver; an attribute inherited as do_not_copy and then left out of a subclass's explicit do_not_copy list is not judged either way",
]


def GATES(tier):
    return [("copies_judged", 300), ("identity_graphs_compared", 300), ("followup_mutations", 500), ("dnc_attrs_checked", 10), ("kind:deepcopy", 10), ("dnc_with_subclass_cases", 5), ("dnc_inherited_attr_cases", 3), ("noargs_forms", 20), ("shallow_transforms", 10), ("bare_redeclared_dnc_attr", 3), ("whole_instance_shallow_transforms", 20), ("class_level_reads_compared", 5), ("dnc_one_shot_iterable_cases", 2)] + [
        (f"kind:{hk}", 5) for hk in dr.HELPER_KINDS
    ]


def dnc_attrs(world, cname):
    return [a for a in world.decl.attrs_of(cname) if world.decl.dnc_status(cname, a) is True]


def dnc_unspecified(world, cname):
    """Inherited as do_not_copy, then left out of a subclass's explicit do_not_copy list: either behaviour is accepted."""
    return [a for a in world.decl.attrs_of(cname) if world.decl.dnc_status(cname, a) is None]


def targeted_attrs(world, cname, op):
    """Attributes the call itself (or invalidation triggered by it) may legitimately rebind."""
    if op["kind"] == "deepcopy":
        return set()
    hk = op["hkind"]
    attrs = world.decl.attrs_of(cname)
    if hk == "reset":
        t = set(attrs)
    else:
        t = set((op.get("attr") or "").split(",")) - {""}
    # invalidation closure
    changed = True
    while changed:
        changed = False
        for n, (_o, a) in attrs.items():
            if n not in t and a.invalidated_by and (set(a.invalidated_by) & t or "*" in a.invalidated_by):
                t.add(n)
                changed = True
    return t


def state_roots(world, cname, inst, exclude):
    return {k: v for k, v in inst.__dict__.items() if k not in exclude and not k.startswith("__spec_class")}


def random_inplace_mutation(world, rng, insts, idx):
    """One in-place change of insts[idx]: API operation or direct mutation of a nested value."""
    inst = insts[idx]
    cname = dr.class_name(world, inst)
    r = rng.random()
    if r < 0.55:
        op = dr.gen_any_op(world, rng, [inst], validity="valid", inplace=True)
        tries = 0
        while op["kind"] == "construct" and tries < 5:
            op = dr.gen_any_op(world, rng, [inst], validity="valid", inplace=True)
            tries += 1
        if op["kind"] == "construct":
            return None
        op = dict(op, target=idx)
        return op
    # direct mutation of a nested value
    cands = []
    for n, (_o, a) in world.decl.attrs_of(cname).items():
        v = inst.__dict__.get(n, dr._ABSENT)
        if v is dr._ABSENT:
            continue
        k = a.info.kind
        if k == "list" and a.info.elem == "int":
            cands.append({"how": "list_append", "attr": n, "lit": 4242})
        elif k == "dict" and a.info.elem == "int":
            cands.append({"how": "dict_set", "attr": n, "key": "zz-direct", "lit": 4242})
        elif k == "set" and a.info.elem == "int":
            cands.append({"how": "set_add", "attr": n, "lit": 4242})
        elif k == "spec":
            cands.append({"how": "leaf_attr", "attr": n, "lit": 4242})
            if "ws" in v.__dict__:
                cands.append({"how": "leaf_ws_append", "attr": n, "lit": 4242})
        elif a.info.elem in ("leaf", "kleaf") and len(v) > 0 and k in ("list", "dict", "klist", "kset"):
            cands.append({"how": "elem_attr", "attr": n, "lit": 4242})
        if k in ("list", "dict", "set") and len(v) > 0:
            cands.append({"how": "clear", "attr": n})
    if not cands:
        return None
    c = rng.choice(cands)
    return dict(c, kind="nested", target=idx, hkind="nested:" + c["how"])


ONE_SHOT_SRC = """
from typing import List
from spec_classes import spec_class

def names():
    yield "second"
    yield "third"

@spec_class(do_not_copy=iter(["second", "third"]), bootstrap={boot})
class ByIter:
    first: List[int] = [1]
    second: List[int] = [2]
    third: List[int] = [3]

@spec_class(do_not_copy=names(), bootstrap={boot})
class ByGen:
    first: List[int] = [1]
    second: List[int] = [2]
    third: List[int] = [3]
"""


def directed_one_shot(ctx):
    """do_not_copy is documented as Iterable[str]: whatever kind of iterable names the attributes, those are carried by identity."""
    import copy as _copy

    for boot in (True, False):
        ns = cg.exec_module(ONE_SHOT_SRC.format(boot=boot), prefix="verif_c02i").__dict__
        for cname in ("ByIter", "ByGen"):
            ctx.count("dnc_one_shot_iterable_cases")
            ctx.count("copies_judged")
            x = ns[cname]()
            for label, y in (("deepcopy", _copy.deepcopy(x)), ("with_first([9])", x.with_first([9]))):
                problems = [n for n in ("second", "third") if getattr(y, n) is not getattr(x, n)]
                if label == "deepcopy" and y.first is x.first:
                    problems.append("first (shared although not declared do_not_copy)")
                if problems:
                    ctx.violation("do_not_copy_by_identity", f"[directed] {cname} (do_not_copy given as a one-shot iterable of 'second', 'third'; bootstrap={boot}): after {label} not carried by identity: {problems}",
                                  features={"hkind": "deepcopy" if label == "deepcopy" else "with", "form": "dnc_one_shot_iterable", "attr_kind": "list", "dnc": True}, case=["dnc_one_shot", cname, boot, label])
    ctx.sig("directed", "dnc_one_shot_iterable")


def run(ctx, params):
    if params.get("directed"):
        return directed_one_shot(ctx)
    rng = ctx.rng
    for ci in range(params["cases"]):
        mixed = rng.random() < 0.3
        decl = cg.gen_module(rng, {"frozen": False, "dnc_with_subclasses": mixed, "redeclare_dnc": 0.5, "bare_redeclaration": 0.4, "init_false": True})
        for c in decl.classes:
            for a in c.attrs:
                if a.bare:
                    ctx.count("bare_redeclaration_modules")
                    if decl.dnc_status(c.name, a.name) is True:
                        ctx.count("bare_redeclared_dnc_attr")
        world = cg.World(decl)
        # do_not_copy x subclassing: a subclass that does not pass do_not_copy inherits the parent's settings, one that
        # passes a list decides for the attributes it names (see classgen.dnc_status)
        with_sub = len(decl.classes) > 1 and any(dnc_attrs(world, c.name) for c in decl.classes)
        try:
            history, insts = dr.build_history(world, rng, rng.randint(0, 6))
            for ji in range(params["copies_per_case"]):
                case = [params.get("shard"), ci, ji]
                receivers = [i for i, x in enumerate(insts) if dr.class_name(world, x) is not None]
                if not receivers:
                    break
                target = rng.choice(receivers)
                R = insts[target]
                cname = dr.class_name(world, R)
                if rng.random() < 0.12:
                    op = {"kind": "deepcopy", "target": target, "hkind": "deepcopy", "form": "deepcopy", "validity": "valid"}
                else:
                    op = dr.gen_helper(world, rng, insts, target, validity="valid", inplace=False)
                    op["kwargs"].pop("_if", None)
                    present = [n for n in world.decl.attrs_of(cname) if n in R.__dict__]
                    r_ = rng.random()
                    if r_ < 0.08 and present:
                        # the no-argument forms: nothing to apply, still a copy that shares nothing
                        n = rng.choice(present)
                        verb = rng.choice(["update", "transform"])
                        op = {"kind": "helper", "target": target, "name": f"{verb}_{n}", "args": [], "kwargs": {}, "hkind": f"{verb}_attr", "form": "noargs", "attr": n, "validity": "valid", "inplace": False}
                        ctx.count("noargs_forms")
                    elif r_ < 0.13:
                        # the whole-instance transform alone, returning a *new* instance that holds what it was given
                        op = {"kind": "helper", "target": target, "name": "transform", "args": [["fn", "shallow"]], "kwargs": {}, "hkind": "transform", "form": "fn_only", "attr": None, "validity": "valid", "inplace": False}
                        ctx.count("whole_instance_shallow_transforms")
                    elif r_ < 0.3:
                        # a transform that returns a *new* object holding the old elements / nested values
                        swapped = False
                        for i, a_ in enumerate(op["args"]):
                            if isinstance(a_, list) and a_ and a_[0] == "fn" and a_[1] in ("ident_copy", "listcopy", "dictcopy", "rev", "same"):
                                op["args"][i] = ["fn", "shallow"]
                                swapped = True
                        for k_, a_ in list(op["kwargs"].items()):
                            if isinstance(a_, list) and a_ and a_[0] == "fn" and a_[1] in ("ident_copy", "listcopy", "dictcopy", "rev", "same"):
                                op["kwargs"][k_] = ["fn", "shallow"]
                                swapped = True
                        if swapped:
                            ctx.count("shallow_transforms")
                step = dr.execute(world, insts, op, scopes=(), saturate=True)
                X = step.value
                if step.outcome == "returned" and X is R:
                    # a copy-on-write call may hand back the receiver itself only where it is documented as a no-op
                    # (C05: _if=False / MISSING / UNCHANGED - not generated here); anywhere else "the copy" shares
                    # everything with the receiver
                    sanctioned = False
                    ctx.count("receiver_returned_sanctioned" if sanctioned else "receiver_returned")
                    if not sanctioned:
                        t = cg.BY_NAME.get((op.get("attr") or "").split(",")[0], None)
                        ctx.violation(
                            "copy_is_the_receiver",
                            f"{dr.op_src(op)} (no _inplace) returned the receiver itself: every later in-place change of the result is a change of the receiver",
                            features={"hkind": op["hkind"], "form": op.get("form"), "attr_kind": t.kind if t else None, **dr.shape_features(world, cname)},
                            case=case, history=dr.describe_history(history), source=world.source[-1500:],
                        )
                    continue
                if step.outcome != "returned" or dr.class_name(world, X) is None:
                    ctx.count("calls_without_copy")
                    continue
                ctx.count("copies_judged")
                ctx.count(f"kind:{op['hkind']}")
                dnc = dnc_attrs(world, cname)
                unspec = dnc_unspecified(world, cname)
                if with_sub and cname != "M":
                    ctx.count("dnc_with_subclass_cases")
                    if any(world.decl.attrs_of(cname)[a][0].name != cname for a in dnc):
                        ctx.count("dnc_inherited_attr_cases")
                t = cg.BY_NAME.get((op.get("attr") or "").split(",")[0], None)
                feats = {"hkind": op["hkind"], "form": op.get("form"), "attr_kind": t.kind if t else None, "elem": t.elem if t else None, "dnc": bool(dnc)}
                feats.update(dr.shape_features(world, cname))
                # ---- (a) identity graph ------------------------------------------------
                allowed = {}
                for a in list(step.args) + [v for v in step.kwargs.values()]:
                    allowed.update(mutable_nodes(a))
                for n in dnc + unspec:
                    if n in R.__dict__:
                        allowed.update(mutable_nodes(R.__dict__[n]))
                mr, mx = mutable_nodes(R), mutable_nodes(X)
                shared = [o for oid, o in mx.items() if oid in mr and oid not in allowed]
                where_extra = []
                # ... and what both instances *read* for a managed attribute neither stores itself (a value that lives on the
                # class, e.g. the default of an attribute that is not a constructor argument): one object behind two instances
                for n in world.decl.attrs_of(cname):
                    if n in dnc or n in unspec or n in X.__dict__ or n in R.__dict__:
                        continue
                    try:
                        vx, vr = getattr(X, n), getattr(R, n)
                    except AttributeError:
                        continue
                    ctx.count("class_level_reads_compared")
                    if vx is vr and mutable_nodes(vx) and id(vx) not in allowed:
                        shared.append(vx)
                        where_extra.append(n)
                ctx.count("identity_graphs_compared")
                if shared:
                    where = [k for k, v in X.__dict__.items() if any(id(s) in mutable_nodes(v) for s in shared)] + where_extra
                    ctx.violation(
                        "copy_shares_mutable_state",
                        f"{dr.op_src(op)}: result shares {len(shared)} mutable object(s) with the receiver, e.g. {safe_repr(shared[0], 60)} (type {type(shared[0]).__name__}) under attribute(s) {where}",
                        features=dict(feats, shared_type=type(shared[0]).__name__, shared_under=sorted(where)[:3]),
                        case=case, history=dr.describe_history(history), source=world.source[-1500:],
                    )
                targeted = targeted_attrs(world, cname, op)
                for n in dnc:
                    if n in targeted or n not in R.__dict__:
                        continue
                    ctx.count("dnc_attrs_checked")
                    if n not in X.__dict__ or X.__dict__[n] is not R.__dict__[n]:
                        ctx.violation(
                            "do_not_copy_by_identity",
                            f"{dr.op_src(op)}: do_not_copy attribute {n} was {'dropped' if n not in X.__dict__ else 'duplicated'} in the copy",
                            features=dict(feats, dnc_attr_kind=cg.BY_NAME[n].kind), case=case, history=dr.describe_history(history), source=world.source[-1500:],
                        )
                # ---- (b) differential ------------------------------------------------------
                pair = [R, X]
                kinds = []
                for victim, mutated in ((0, 1), (1, 0)):
                    roots = state_roots(world, cname, pair[victim], set(dnc) | set(unspec))
                    before = snap(roots)
                    applied = []
                    for _ in range(rng.randint(1, 4)):
                        mop = random_inplace_mutation(world, rng, pair, mutated)
                        if mop is None:
                            continue
                        st = dr.execute(world, pair, mop, scopes=(), saturate=False)
                        ctx.count("followup_mutations")
                        applied.append(dr.op_src(mop) + ("" if st.outcome == "returned" else f" [raised {type(st.exc).__name__}]"))
                        kinds.append(mop["hkind"])
                    after = snap(roots)
                    if before != after:
                        ctx.violation(
                            "mutation_visible_through_copy",
                            f"after X = {dr.op_src(op)}, in-place changes to {'X' if mutated == 1 else 'R'} ({applied}) changed {'R' if victim == 0 else 'X'}: {before.diff(after, 3)}",
                            features=dict(feats, mutated="result" if mutated == 1 else "receiver", followups=sorted(set(kinds))[:4]),
                            case=case, history=dr.describe_history(history), source=world.source[-1500:],
                        )
                        break
                ctx.sig(op["hkind"], op.get("form"), feats["attr_kind"], feats["elem"], feats["dnc"], feats["cls_kind"], feats["lazy"], tuple(sorted(set(kinds)))[:3])
                if ci % 60 == 0 and ji == 0:
                    ctx.sample({"history": dr.describe_history(history[-4:]), "copy_call": dr.op_src(op), "do_not_copy_attrs": dnc, "followups": kinds})
                # the mutated pair is not reused: rebuild live state for the next judged copy
                insts[:] = dr.replay(world, history)
        finally:
            world.close()


def plan(tier, seed):
    if tier == "quick":
        return [{"directed": True}] + [{"shard": i, "cases": 60, "copies_per_case": 6} for i in range(16)]
    return [{"directed": True}] + [{"shard": i, "cases": 1200, "copies_per_case": 8} for i in range(32)]
