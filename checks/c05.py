"""
C05 - scalar and top-level helpers compute exactly the documented new state.

Monitors (history + executable reference model, and relational twins on replayed states):
 M  model: for with_<a>(v) / update_<a>(**kw) / transform_<a>(f) / update(**kw) / transform(a=f) with conforming
    arguments the abstract state of the result must equal the model's prediction: the addressed attribute holds the
    prepared new value (collections normalised, nested keywords built/merged), every other attribute is untouched
    except attributes declared invalidated_by it, which are back at their default;
 R1 copy-run == in-place-run: same outcome class; equal resulting state; the in-place call returns the receiver itself,
    the copying call a distinct instance;
 R2 obj.a = v  ==  obj.with_a(v, _inplace=True)  (equal state or same exception class);
 R3 update(a=1, b=2) == with_a(1).with_b(2);
 R4 with_leaf(**kw) == with_leaf(Leaf(**kw));  R5 del obj.a == reset_a(_inplace=True);
 R6 transform_a(f) == with_a(f(copy of old));
 N  no-ops: _if=False, UNCHANGED, MISSING-valued keyword return the receiver / change nothing.
"""

from __future__ import annotations

import copy

from vlib import classgen as cg
from vlib import driver as dr
from vlib.core import safe_repr
from vlib.snap import alpha, snap

PROP = "C05"
LEVEL = "exploration"
EVAL_COUNTER = "relations_judged"
RULE = (
    "seeded class definitions x reachable states (histories of up to 8 operations) x every scalar/top-level helper in each "
    "documented call form x flag combinations (_inplace, _if) with conforming values and pure transforms; each case is judged by "
    "the reference model and/or one of the relational twins R1-R6/N on deterministically replayed copies of the same state; "
    "distinct by (relation, helper kind, call form, attribute type, preparer?, invalidation?, class shape, outcome)"
)
ASSUMPTIONS = [
    "reference model in this file, written from the documentation; UNSPECIFIED cases of DESIGN.md §4 (no-argument with_ on scalars, transform of a missing scalar, identity returned by update(a=MISSING)) are not judged",
    "preparers in the grammar are pure and idempotent (abs / upper)",
]
SCALAR_KINDS = ["with", "update_attr", "transform_attr", "reset_attr", "update", "transform", "reset"]


def GATES(tier):
    return [("relations_judged", 500), ("constant_transform_calls", 20)] + [(f"rel:{r}", 15) for r in ("M", "R1", "R2", "R3", "R4", "R5", "R6", "N", "D")] + [(f"kind:{k}", 10) for k in SCALAR_KINDS]


def oc(step):
    return "returned" if step.outcome == "returned" else f"raised:{type(step.exc).__name__}"


def managed_state(world, inst):
    cname = dr.class_name(world, inst)
    return {n: alpha(inst.__dict__[n]) for n in world.decl.attrs_of(cname) if n in inst.__dict__}


def full_state(inst):
    return alpha(inst)


# -- model ---------------------------------------------------------------------


def prepared_alpha(world, cname, attr, value_obj):
    """Abstract value stored for `attr` when the conforming object `value_obj` is assigned (preparers applied)."""
    decl = world.decl
    t = cg.BY_NAME[attr]
    p, ip = decl.preparer_of(cname, attr), decl.item_preparer_of(cname, attr)
    a = alpha(value_obj)
    if t.kind == "scalar":
        return cg.model_prepare(p, a) if p else a
    if t.kind == "spec":
        return a
    if value_obj is None:
        a = [] if t.kind == "list" else ({} if t.kind == "dict" else frozenset())
        if t.kind == "klist":
            a = ("KeyedList", [])
        if t.kind == "kset":
            a = ("KeyedSet", {})
        return a
    if t.kind == "list":
        items = list(a) if not (isinstance(a, tuple) and a and a[0] == "KeyedList") else a[1]
        return [cg.model_prepare(ip, x) if ip else x for x in items]
    if t.kind == "dict":
        return {k: (cg.model_prepare(ip, v) if ip else v) for k, v in a.items()}
    if t.kind == "set":
        return frozenset(cg.model_prepare(ip, x) if ip else x for x in a)
    if t.kind == "klist":
        items = a[1] if isinstance(a, tuple) and a and a[0] == "KeyedList" else list(a)
        return ("KeyedList", list(items))
    if t.kind == "kset":
        if isinstance(a, tuple) and a and a[0] == "KeyedSet":
            return a
        return ("KeyedSet", {x[2]["k"]: x for x in a})
    raise ValueError(t.kind)


def fresh_defaults(world, cname):
    kw = {}
    key = world.decl.flag(cname, "key")
    if key and world.decl.default_of(cname, key) is None:
        kw[key] = "FRESHKEY"
    inst = world.classes[cname](**kw)
    st = managed_state(world, inst)
    for k in kw:
        st.pop(k, None)
    return st, set(kw)


def apply_invalidation(world, cname, state, changed, defaults, given):
    """Attributes declared invalidated_by a changed attribute go back to their default (transitively)."""
    attrs = world.decl.attrs_of(cname)
    frontier, seen = set(changed), set(changed)
    unknown = set()
    while frontier:
        nxt = set()
        for n, (_o, a) in attrs.items():
            if n in seen or not a.invalidated_by:
                continue
            if set(a.invalidated_by) & frontier or "*" in a.invalidated_by:
                if n in given:
                    unknown.add(n)
                elif n in defaults:
                    state[n] = defaults[n]
                else:
                    state.pop(n, None)
                nxt.add(n)
                seen.add(n)
        frontier = nxt
    return unknown


def leaf_alpha(world, kw):
    return alpha(world.ns["Leaf"](**kw))


def model_predict(world, recv, op, built_args, built_kwargs):
    """Expected managed state of the result, or None when this form is not modelled."""
    cname = dr.class_name(world, recv)
    hk, form = op["hkind"], op.get("form")
    pre = managed_state(world, recv)
    post = dict(pre)
    user_kw = {k: v for k, v in built_kwargs.items() if not k.startswith("_")}
    changed = []
    if hk == "with":
        n = op["attr"]
        t = cg.BY_NAME[n]
        if form == "value":
            post[n] = prepared_alpha(world, cname, n, built_args[0])
        elif form == "kwargs" and t.kind == "spec":
            post[n] = leaf_alpha(world, user_kw)
        elif form == "value+kwargs" and t.kind == "spec":
            base = alpha(built_args[0])
            post[n] = (base[0], base[1], {**base[2], **{k: alpha(v) for k, v in user_kw.items()}})
        elif form == "dict" and t.kind == "spec":
            post[n] = leaf_alpha(world, built_args[0])
        elif form == "none":
            post[n] = prepared_alpha(world, cname, n, None)
        elif form == "noarg" and t.kind in cg.COLLECTION_KINDS:
            post[n] = prepared_alpha(world, cname, n, None)
        elif form == "iterable":
            post[n] = prepared_alpha(world, cname, n, built_args[0])
        else:
            return None
        changed = [n]
    elif hk == "update_attr":
        n = op["attr"]
        t = cg.BY_NAME[n]
        if t.kind == "spec":
            if form == "kwargs":
                base = pre.get(n)
                if base is None:
                    post[n] = leaf_alpha(world, user_kw)
                else:
                    post[n] = (base[0], base[1], {**base[2], **{k: alpha(v) for k, v in user_kw.items()}})
            elif form in ("value", "value+kwargs"):
                base = alpha(built_args[0])
                post[n] = (base[0], base[1], {**base[2], **{k: alpha(v) for k, v in user_kw.items()}})
            else:
                return None
        else:
            post[n] = prepared_alpha(world, cname, n, built_args[0])
        changed = [n]
    elif hk == "transform_attr":
        n = op["attr"]
        t = cg.BY_NAME[n]
        if n not in pre:
            return None  # transform of a missing value: UNSPECIFIED
        if form == "fn":
            fname = op["args"][0][1]
            try:
                new = cg.model_transform(fname, copy.deepcopy(pre[n]))
            except Exception:
                return None
            post[n] = _reprepare(world, cname, n, new)
        elif form in ("attr_transforms", "fn+attr_transforms") and t.kind == "spec":
            base = pre[n]  # the whole-value transforms used with attribute transforms hand back (a copy of) their input
            d = dict(base[2])
            for k, f in op["kwargs"].items():
                if k.startswith("_"):
                    continue
                if k not in d:
                    return None
                d[k] = cg.model_transform(f[1], d[k])
            post[n] = (base[0], base[1], d)
        else:
            return None
        changed = [n]
    elif hk == "update":
        for n, v in user_kw.items():
            post[n] = prepared_alpha(world, cname, n, v)
            changed.append(n)
    elif hk == "transform":
        for n, f in op["kwargs"].items():
            if n.startswith("_"):
                continue
            # each transform reads the value current at its turn (an earlier one may have invalidated it)
            post[n] = ("__transform__", f[1])
            changed.append(n)
    else:
        return None
    defaults, given = fresh_defaults(world, cname)
    # sequential semantics: attributes are assigned in order; each assignment resets its invalidated_by dependants
    unknown = set()
    final = dict(pre)
    for n in changed:
        v = post[n]
        if isinstance(v, tuple) and len(v) == 2 and v[0] == "__transform__":
            if n not in final or n in unknown:
                return None  # transform of a missing / unknown value: UNSPECIFIED
            try:
                v = _reprepare(world, cname, n, cg.model_transform(v[1], copy.deepcopy(final[n])))
            except Exception:
                return None
        final[n] = v
        unknown.discard(n)
        unknown |= apply_invalidation(world, cname, final, [n], defaults, given)
    for u in unknown:
        final.pop(u, None)
    return final, unknown


def _reprepare(world, cname, attr, a):
    """Model of preparing an abstract value produced by a transform (values are already plain data)."""
    decl = world.decl
    t = cg.BY_NAME[attr]
    p, ip = decl.preparer_of(cname, attr), decl.item_preparer_of(cname, attr)
    if t.kind == "scalar":
        return cg.model_prepare(p, a) if p else a
    if t.kind == "list":
        return [cg.model_prepare(ip, x) if ip else x for x in a]
    if t.kind == "dict":
        return {k: (cg.model_prepare(ip, v) if ip else v) for k, v in a.items()}
    if t.kind == "set":
        return frozenset(cg.model_prepare(ip, x) if ip else x for x in a)
    return a


# -- relations -------------------------------------------------------------------


CONST_SRC = """
from spec_classes import spec_class

@spec_class(bootstrap={boot})
class Inner:
    x: int = 0
    y: int = 0

@spec_class(bootstrap={boot})
class Outer:
    inner: Inner = Inner()
    n: int = 0
"""


def directed_constant_transforms(ctx):
    """transform_<a>(f, **attr transforms) stores f(old) with the attribute transforms applied - for a *constant* f (a pure
    function handing back one pre-existing object) just as for any other: the same call gives the same state every time, and
    the object f hands back is not where the attribute transforms are written."""
    for boot in (True, False):
        ns = cg.exec_module(CONST_SRC.format(boot=boot), prefix="verif_c05c").__dict__
        Inner, Outer = ns["Inner"], ns["Outer"]
        template, whole = Inner(x=10, y=20), Outer(inner=Inner(x=5, y=5), n=7)
        calls = [
            ("transform_inner(const, x=inc)", lambda o, ip: o.transform_inner(lambda cur: template, x=lambda v: v + 1, _inplace=ip), lambda r: (r.inner.x, r.inner.y), (11, 20)),
            ("transform(inner=const) then transform_inner(x=inc)", lambda o, ip: o.transform(inner=lambda cur: template, _inplace=ip).transform_inner(x=lambda v: v + 1, _inplace=ip), lambda r: (r.inner.x, r.inner.y), (11, 20)),
            ("transform(const, n=inc)", lambda o, ip: o.transform(lambda cur: whole, n=lambda v: v + 1, _inplace=False), lambda r: (r.n, r.inner.x), (8, 5)),
        ]
        for label, call, view, want in calls:
            for ip in (False, True):
                for rnd in (1, 2, 3):
                    ctx.count("relations_judged")
                    ctx.count("constant_transform_calls")
                    try:
                        got = view(call(Outer(inner=Inner(x=1, y=2)), ip))
                    except Exception as e:
                        got = f"{type(e).__name__}: {e}"
                    if got != want:
                        ctx.violation("model_state", f"[directed] Outer(inner=Inner(x=1, y=2)).{label} (in place: {ip}), call #{rnd} with the same constant transform: state {got}, the model gives {want} every time",
                                      features={"rel": "M", "hkind": "transform_attr" if "transform_inner" in label else "transform", "form": "constant_transform", "inplace": ip, "round": rnd, "lazy": not boot}, case=["const_transform", label, ip, boot])
                        break
        if (template.x, template.y) != (10, 20) or whole.n != 7:
            ctx.violation("model_state", f"[directed] the objects handed back by the constant transforms were modified: template={template!r}, whole.n={whole.n}", features={"rel": "M", "hkind": "transform_attr", "form": "constant_transform_result_modified", "lazy": not boot}, case=["const_transform_modified", boot])
    ctx.sig("directed", "constant_transforms")


ORDER_SRC = """
from spec_classes import Attr, spec_class

@spec_class(bootstrap={boot})
class Inner:
    a: int = 1
    d: int = Attr(default=10, invalidated_by=["a"])
    e: int = Attr(default=100, invalidated_by=["d"])

@spec_class(bootstrap={boot})
class Outer:
    inner: Inner = Inner()
"""


def directed_multi_change_order(ctx):
    """update/transform (and the nested update_<a>/transform_<a> keyword forms) apply their changes one after the other in
    keyword order, each as the single-attribute helper would: a transform named after an attribute that an earlier change
    invalidated is handed the re-defaulted value, not the stale one. Judged against the composition of single-attribute
    helpers (themselves judged by the model) on a chain a -> d -> e of invalidated_by attributes holding non-default values."""
    inc = lambda v: v + 1  # noqa: E731
    for boot in (True, False):
        ns = cg.exec_module(ORDER_SRC.format(boot=boot), prefix="verif_c05o").__dict__
        Inner, Outer = ns["Inner"], ns["Outer"]
        view = lambda r: (r.a, r.d, r.e)  # noqa: E731
        import itertools
        for names in [p for k in (2, 3) for p in itertools.permutations(("a", "d", "e"), k)]:
            for ip in (False, True):
                for kind in ("transform", "update"):
                    for nested in (False, True):
                        ctx.count("relations_judged")
                        ctx.count("multi_change_order_cases")
                        kw = {n: (inc if kind == "transform" else {"a": 2, "d": 7, "e": 70}[n]) for n in names}
                        base = Inner(a=1, d=5, e=50)
                        want_obj = Inner(a=1, d=5, e=50)
                        for n in names:
                            want_obj = getattr(want_obj, ("transform_" if kind == "transform" else "with_") + n)(kw[n])
                        want = view(want_obj)
                        try:
                            if nested:
                                o = Outer(inner=base)
                                r = getattr(o, kind + "_inner")(_inplace=ip, **kw)
                                got = view(r.inner)
                                untouched = ip or view(o.inner) == (1, 5, 50)
                            else:
                                r = getattr(base, kind)(_inplace=ip, **kw)
                                got = view(r)
                                untouched = ip or view(base) == (1, 5, 50)
                        except Exception as e:
                            got, untouched = f"{type(e).__name__}: {e}", True
                        label = f"{'Outer(inner=I).' + kind + '_inner' if nested else 'I.' + kind}({', '.join(n + '=' + ('inc' if kind == 'transform' else str(kw[n])) for n in names)}, _inplace={ip}) with I = Inner(a=1, d=5, e=50), d invalidated_by a, e invalidated_by d"
                        if got != want or not untouched:
                            ctx.violation("model_state", f"[directed] {label}: state (a, d, e) = {got}, the single-attribute helpers applied in that order give {want}" + ("" if untouched else "; the receiver changed"),
                                          features={"rel": "M", "hkind": kind + ("_attr" if nested else ""), "form": "multi_change_order", "inplace": ip, "lazy": not boot}, case=["multi_change_order", kind, nested, list(names), ip, boot])
    ctx.sig("directed", "multi_change_order")


PREP_SRC = """
from spec_classes import spec_class

@spec_class(bootstrap={boot})
class Base:
    x: int = 0
    y: int = 0

    def _prepare_x(self, x):
        return x + 1

class Plain(Base):      # an undecorated subclass overriding the preparer
    def _prepare_x(self, x):
        return x * 10

@spec_class(bootstrap={boot})
class Spec(Base):       # a decorated subclass overriding the preparer
    z: int = 0

    def _prepare_x(self, x):
        return x * 100

class Keeps(Base):      # a subclass that does not override it
    pass
"""


def directed_preparer_override(ctx):
    """`with_<a>(v)` stores the *prepared* v; the preparer is the `_prepare_<a>` method of the receiver's class, so a subclass
    (decorated or not) that overrides it decides - on every route that stores a given value."""
    routes = [
        ("C(x=3)", lambda C: C(x=3)),
        ("C().with_x(3)", lambda C: C().with_x(3)),
        ("C().with_x(3, _inplace=True)", lambda C: C().with_x(3, _inplace=True)),
        ("o = C(); o.x = 3", lambda C: (lambda o: (setattr(o, "x", 3), o)[1])(C())),
        ("C().update(x=3)", lambda C: C().update(x=3)),
        ("C().update(x=3, y=1, _inplace=True)", lambda C: C().update(x=3, y=1, _inplace=True)),
        ("C(y=1).with_y(2).with_x(3)", lambda C: C(y=1).with_y(2).with_x(3)),
    ]
    expect = {"Base": 4, "Plain": 30, "Spec": 300, "Keeps": 4}
    for boot in (True, False):
        ns = cg.exec_module(PREP_SRC.format(boot=boot), prefix="verif_c05p").__dict__
        for order in (("Base", "Plain", "Spec", "Keeps"), ("Keeps", "Spec", "Plain", "Base")):  # (first use through a subclass / through the base)
            for cname in order:
                for label, fn in routes:
                    ctx.count("relations_judged")
                    ctx.count("preparer_override_cases")
                    try:
                        got = fn(ns[cname]).x
                    except Exception as e:
                        got = f"{type(e).__name__}: {e}"
                    if got != expect[cname]:
                        ctx.violation("model_state", f"[directed] {label} with C = {cname} ({'overrides' if cname in ('Plain', 'Spec') else 'uses'} Base._prepare_x): x == {got!r}, the preparer of {cname} gives {expect[cname]}",
                                      features={"rel": "M", "hkind": "with", "form": "preparer_override", "cls": cname, "lazy": not boot}, case=["preparer_override", cname, label, boot, order[0]])
            ns = cg.exec_module(PREP_SRC.format(boot=boot), prefix="verif_c05p").__dict__
    ctx.sig("directed", "preparer_override")


def run(ctx, params):
    if params.get("directed"):
        directed_constant_transforms(ctx)
        directed_preparer_override(ctx)
        return directed_multi_change_order(ctx)
    rng = ctx.rng
    for ci in range(params["cases"]):
        decl = cg.gen_module(rng, {"frozen": False})
        world = cg.World(decl)
        try:
            history, insts = dr.build_history(world, rng, rng.randint(0, 8))
            for ji in range(params["judged_per_case"]):
                case = [params.get("shard"), ci, ji]
                receivers = [i for i, x in enumerate(insts) if dr.class_name(world, x) is not None]
                target = rng.choice(receivers)
                cname = dr.class_name(world, insts[target])
                rel = rng.choice(["M", "M", "R1", "R1", "R2", "R3", "R4", "R5", "R6", "N", "D"])
                hk = rng.choice(SCALAR_KINDS)
                validity = "valid" if rng.random() < 0.8 else rng.choice(["nonconf", "unknown_kw", "raising_cb"])
                feats = {"rel": rel}
                feats.update(dr.shape_features(world, cname))
                details = dict(history=dr.describe_history(history), source=world.source[-1500:])

                def report(monitor, what, **kw):
                    ctx.violation(monitor, what, features=dict(feats, **kw), case=case, **details)

                def twin():
                    return dr.replay(world, history)

                judged = False
                if rel == "M":
                    op = dr.gen_helper(world, rng, insts, target, hkind=hk, validity="valid", inplace=rng.random() < 0.4)
                    op["kwargs"].pop("_if", None)
                    args, kwargs = dr.materialise(world, op)
                    try:
                        pred = model_predict(world, insts[target], op, args, kwargs)
                    except Exception:
                        pred = None
                    st = dr.execute(world, twin(), op, scopes=(), saturate=False)
                    if pred is not None and st.outcome == "returned" and dr.class_name(world, st.value) is not None:
                        expected, unknown = pred
                        got = managed_state(world, st.value)
                        for u in unknown:
                            got.pop(u, None)
                        judged = True
                        feats.update(hkind=op["hkind"], form=op.get("form"), inplace=bool(op.get("inplace")), attr_kind=cg.BY_NAME[op["attr"].split(",")[0]].kind if op.get("attr") else None)
                        if got != expected:
                            diff = {k: (got.get(k, "<missing>"), expected.get(k, "<missing>")) for k in set(got) | set(expected) if got.get(k, "<missing>") != expected.get(k, "<missing>")}
                            report("model_state", f"{dr.op_src(op)} on {safe_repr(insts[target], 80)}: result differs from the documented state: {safe_repr(diff, 200)} (got, expected)", differing=sorted(diff)[:3])
                    elif pred is None:
                        ctx.count("unspecified_skipped")
                elif rel == "R1":
                    op = dr.gen_helper(world, rng, insts, target, hkind=hk, validity=validity, inplace=False)
                    op_in = copy.deepcopy(op)
                    op_in["kwargs"]["_inplace"] = True
                    op_in["inplace"] = True
                    t1, t2 = twin(), twin()
                    s1 = dr.execute(world, t1, op, scopes=(), saturate=False)
                    s2 = dr.execute(world, t2, op_in, scopes=(), saturate=False)
                    judged = True
                    feats.update(hkind=op["hkind"], form=op.get("form"), validity=validity, outcome=oc(s1))
                    noop = op["kwargs"].get("_if", True) is False
                    if oc(s1) != oc(s2):
                        report("copy_vs_inplace", f"{dr.op_src(op)}: copying call {oc(s1)} but in-place call {oc(s2)} ({safe_repr(s1.exc or s2.exc, 100)})", inplace_outcome=oc(s2))
                    elif s1.outcome == "returned":
                        if s2.value is not s2.recv:
                            report("copy_vs_inplace", f"{dr.op_src(op_in)} did not return the receiver itself", problem="inplace_identity")
                        elif dr.class_name(world, s1.value) is not None and full_state(s1.value) != full_state(s2.recv):
                            report("copy_vs_inplace", f"{dr.op_src(op)}: copy result {safe_repr(s1.value, 90)} != in-place result {safe_repr(s2.recv, 90)}", problem="state")
                        elif not noop and s1.value is s1.recv and full_state(s2.recv) != full_state(twin()[target]):
                            report("copy_vs_inplace", f"{dr.op_src(op)} returned the receiver itself although the in-place twin changed state", problem="copy_identity")
                elif rel == "R2":
                    attrs = world.decl.attrs_of(cname)
                    n = rng.choice(list(attrs))
                    rec = cg.conf_recipe(attrs[n][1].tk, rng)
                    if validity == "nonconf":
                        rec, _tag = rng.choice(cg.nonconf_recipes(attrs[n][1].tk))
                    op_a = {"kind": "setattr", "target": target, "attr": n, "value": rec, "args": [rec]}
                    op_b = {"kind": "helper", "target": target, "name": f"with_{n}", "args": [rec], "kwargs": {"_inplace": True}, "hkind": "with"}
                    t1, t2 = twin(), twin()
                    s1 = dr.execute(world, t1, op_a, scopes=(), saturate=False)
                    s2 = dr.execute(world, t2, op_b, scopes=(), saturate=False)
                    judged = True
                    feats.update(hkind="setattr", attr_kind=cg.BY_NAME[n].kind, validity=validity, outcome=oc(s1))
                    if oc(s1) != oc(s2):
                        report("assignment_vs_with", f"{dr.op_src(op_a)} {oc(s1)} but {dr.op_src(op_b)} {oc(s2)}")
                    elif full_state(t1[target]) != full_state(t2[target]):
                        report("assignment_vs_with", f"{dr.op_src(op_a)} gives {safe_repr(t1[target], 90)} but {dr.op_src(op_b)} gives {safe_repr(t2[target], 90)}")
                elif rel == "R3":
                    attrs = world.decl.attrs_of(cname)
                    chosen = rng.sample(list(attrs), min(len(attrs), rng.randint(2, 3)))
                    recs = {n: cg.conf_recipe(attrs[n][1].tk, rng) for n in chosen}
                    t1, t2 = twin(), twin()
                    s1 = dr.execute(world, t1, {"kind": "helper", "target": target, "name": "update", "args": [], "kwargs": dict(recs), "hkind": "update"}, scopes=(), saturate=False)
                    cur, ok, last = t2[target], True, None
                    for n in chosen:
                        tmp = [cur]
                        last = dr.execute(world, tmp, {"kind": "helper", "target": 0, "name": f"with_{n}", "args": [recs[n]], "kwargs": {}, "hkind": "with"}, scopes=(), saturate=False)
                        if last.outcome != "returned":
                            ok = False
                            break
                        cur = last.value
                    judged = True
                    feats.update(hkind="update", nattrs=len(chosen), outcome=oc(s1))
                    if (s1.outcome == "returned") != ok:
                        report("update_vs_chained_with", f"update({', '.join(f'{n}={cg.src_ext(r)}' for n, r in recs.items())}) {oc(s1)} but chained with_ calls {'returned' if ok else oc(last)}")
                    elif ok and full_state(s1.value) != full_state(cur):
                        report("update_vs_chained_with", f"update({', '.join(f'{n}={cg.src_ext(r)}' for n, r in recs.items())}) gives {safe_repr(s1.value, 90)} but chained with_ calls give {safe_repr(cur, 90)}")
                elif rel == "R4":
                    specs = [n for n, (_o, a) in world.decl.attrs_of(cname).items() if a.info.kind == "spec"]
                    if specs:
                        n = rng.choice(specs)
                        kw = {"v": rng.choice([1, 5])}
                        if rng.random() < 0.5:
                            kw["ws"] = [1, 2]
                        t1, t2 = twin(), twin()
                        s1 = dr.execute(world, t1, {"kind": "helper", "target": target, "name": f"with_{n}", "args": [], "kwargs": {k: cg.R_lit(v) for k, v in kw.items()}, "hkind": "with"}, scopes=(), saturate=False)
                        s2 = dr.execute(world, t2, {"kind": "helper", "target": target, "name": f"with_{n}", "args": [["leaf", kw]], "kwargs": {}, "hkind": "with"}, scopes=(), saturate=False)
                        judged = True
                        feats.update(hkind="with", form="kwargs_vs_constructed", outcome=oc(s1))
                        if oc(s1) != oc(s2) or (s1.outcome == "returned" and full_state(s1.value) != full_state(s2.value)):
                            report("nested_keywords_vs_constructed", f"with_{n}(**{kw}) -> {safe_repr(s1.value if s1.outcome == 'returned' else s1.exc, 90)} but with_{n}(Leaf(**{kw})) -> {safe_repr(s2.value if s2.outcome == 'returned' else s2.exc, 90)}")
                elif rel == "R5":
                    n = rng.choice(list(world.decl.attrs_of(cname)))
                    t1, t2 = twin(), twin()
                    s1 = dr.execute(world, t1, {"kind": "delattr", "target": target, "attr": n}, scopes=(), saturate=False)
                    s2 = dr.execute(world, t2, {"kind": "helper", "target": target, "name": f"reset_{n}", "args": [], "kwargs": {"_inplace": True}, "hkind": "reset_attr"}, scopes=(), saturate=False)
                    judged = True
                    feats.update(hkind="delattr", attr_kind=cg.BY_NAME[n].kind, outcome=oc(s1))
                    if oc(s1) != oc(s2):
                        report("del_vs_reset", f"del x.{n} {oc(s1)} but reset_{n}(_inplace=True) {oc(s2)}")
                    elif full_state(t1[target]) != full_state(t2[target]):
                        report("del_vs_reset", f"del x.{n} gives {safe_repr(t1[target], 90)} but reset_{n}(_inplace=True) gives {safe_repr(t2[target], 90)}")
                elif rel == "R6":
                    attrs = world.decl.attrs_of(cname)
                    present = [n for n in attrs if n in insts[target].__dict__]
                    if present:
                        n = rng.choice(present)
                        fname = rng.choice(cg.TRANSFORMS_FOR[attrs[n][1].tk])
                        t1, t2 = twin(), twin()
                        s1 = dr.execute(world, t1, {"kind": "helper", "target": target, "name": f"transform_{n}", "args": [["fn", fname]], "kwargs": {}, "hkind": "transform_attr"}, scopes=(), saturate=False)
                        try:
                            newval = world.ns["TRANSFORMS"][fname](copy.deepcopy(t2[target].__dict__[n]))
                            s2val = getattr(t2[target], f"with_{n}")(newval)
                            s2o = "returned"
                        except Exception as e:
                            s2val, s2o = e, f"raised:{type(e).__name__}"
                        judged = True
                        feats.update(hkind="transform_attr", attr_kind=cg.BY_NAME[n].kind, fn=fname, outcome=oc(s1))
                        if oc(s1) != s2o:
                            report("transform_vs_with", f"transform_{n}({fname}) {oc(s1)} but with_{n}({fname}(old)) {s2o}")
                        elif s1.outcome == "returned" and full_state(s1.value) != full_state(s2val):
                            report("transform_vs_with", f"transform_{n}({fname}) gives {safe_repr(s1.value, 90)} but with_{n}({fname}(old)) gives {safe_repr(s2val, 90)}")
                elif rel == "D":
                    # reset_<a> / reset / del restore what a freshly constructed instance holds
                    import checks.c08 as c08

                    attrs = world.decl.attrs_of(cname)
                    which = rng.choice(["reset_attr", "reset", "del"])
                    n = rng.choice(list(attrs))
                    inplace = which == "del" or rng.random() < 0.5
                    if which == "del":
                        op = {"kind": "delattr", "target": target, "attr": n, "hkind": "delattr", "inplace": True}
                    elif which == "reset":
                        op = {"kind": "helper", "target": target, "name": "reset", "hkind": "reset", "args": [], "kwargs": {"_inplace": True} if inplace else {}, "inplace": inplace, "attr": None}
                    else:
                        op = {"kind": "helper", "target": target, "name": f"reset_{n}", "hkind": "reset_attr", "args": [], "kwargs": {"_inplace": True} if inplace else {}, "inplace": inplace, "attr": n}
                    t1 = twin()
                    st = dr.execute(world, t1, op, scopes=(), saturate=False)
                    feats.update(hkind=op["hkind"], inplace=inplace, outcome=oc(st))
                    if st.outcome == "returned":
                        judged = True
                        subject = st.value if (op["kind"] == "helper" and st.value is not None) else t1[target]
                        has_init_false = any(not a.init for _o, a in attrs.values())
                        if not has_init_false:
                            c08.check_reset(ctx, world, t1, subject, cname, list(attrs) if which == "reset" else [n], op, history, case)
                else:  # N: no-ops
                    which = rng.choice(["if_false", "unchanged", "missing_kw", "if_false_inplace"])
                    op = dr.gen_helper(world, rng, insts, target, hkind=hk, validity="valid", inplace=which == "if_false_inplace")
                    t1 = twin()
                    recv = t1[target]
                    before = snap({"recv": recv})
                    if which in ("if_false", "if_false_inplace"):
                        op["kwargs"]["_if"] = False
                        st = dr.execute(world, t1, op, scopes=(), saturate=False)
                        must_return_receiver = True
                    elif which == "unchanged":
                        n = rng.choice(list(world.decl.attrs_of(cname)))
                        verb = rng.choice(["with", "update", "update_kw"])
                        if verb == "update_kw":  # top-level update(a=UNCHANGED): nothing changes (which object comes back is not documented)
                            op = {"kind": "helper", "target": target, "name": "update", "args": [], "kwargs": {n: ["sentinel", "UNCHANGED"]}, "hkind": "update", "form": "UNCHANGED_kw"}
                        else:
                            op = {"kind": "helper", "target": target, "name": f"{verb}_{n}", "args": [["sentinel", "UNCHANGED"]], "kwargs": {}, "hkind": "with" if verb == "with" else "update_attr", "form": "UNCHANGED"}
                        if rng.random() < 0.3:
                            op["kwargs"]["_inplace"] = True
                        st = dr.execute(world, t1, op, scopes=(), saturate=False)
                        must_return_receiver = verb != "update_kw"
                    else:
                        n = rng.choice(list(world.decl.attrs_of(cname)))
                        op = {"kind": "helper", "target": target, "name": "update", "args": [], "kwargs": {n: ["sentinel", "MISSING"]}, "hkind": "update", "form": "MISSING_kw"}
                        st = dr.execute(world, t1, op, scopes=(), saturate=False)
                        must_return_receiver = False  # identity returned by update(a=MISSING) is UNSPECIFIED
                    judged = True
                    feats.update(hkind=op["hkind"], form=which, outcome=oc(st))
                    after = snap({"recv": recv})
                    if st.outcome != "returned":
                        report("noop", f"{dr.op_src(op)} should be a no-op but {oc(st)}: {safe_repr(st.exc, 100)}")
                    elif before != after:
                        report("noop", f"{dr.op_src(op)} should be a no-op but changed the receiver: {before.diff(after, 3)}")
                    elif must_return_receiver and st.value is not recv:
                        report("noop", f"{dr.op_src(op)} should return the receiver itself")
                    elif not must_return_receiver and dr.class_name(world, st.value) is not None and full_state(st.value) != full_state(recv):
                        report("noop", f"{dr.op_src(op)} should leave the state as is but returned {safe_repr(st.value, 90)}")
                if judged:
                    ctx.count("relations_judged")
                    ctx.count(f"rel:{rel}")
                    if feats.get("hkind") in SCALAR_KINDS:
                        ctx.count(f"kind:{feats['hkind']}")
                    ctx.sig(rel, feats.get("hkind"), feats.get("form"), feats.get("attr_kind"), feats.get("outcome"), feats.get("validity"), feats["cls_kind"], feats["has_invalidated_by"], feats["lazy"])
                    if ci % 60 == 0 and ji < 2:
                        ctx.sample({"relation": rel, "history": dr.describe_history(history[-4:]), "features": {k: v for k, v in feats.items() if k in ("hkind", "form", "attr_kind", "outcome")}})
        finally:
            world.close()


def plan(tier, seed):
    if tier == "quick":
        return [{"directed": True}] + [{"shard": i, "cases": 50, "judged_per_case": 10} for i in range(16)]
    return [{"directed": True}] + [{"shard": i, "cases": 1000, "judged_per_case": 12} for i in range(32)]
