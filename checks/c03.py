"""
C03 - managed attributes always satisfy their declared type on every mutation route.

Monitors:
 (i)  state invariant at a hook: after every operation of every history an
      independent reference checker (vlib/refcheck.py over the harness's own
      type terms) is applied to every managed attribute stored in every live
      instance, recursively through nested spec instances and container elements;
 (ii) single-fault oracle: an operation that succeeds with conforming arguments
      (confirmed on a replayed twin state) is re-issued with exactly one argument
      slot replaced by a non-conforming value; it must raise TypeError/ValueError
      or leave a conforming state.
"""

from __future__ import annotations

import copy

from vlib import classgen as cg
from vlib import conform
from vlib import driver as dr
from vlib.core import safe_repr

PROP = "C03"
LEVEL = "exploration"
EVAL_COUNTER = "ops_judged"
RULE = (
    "seeded class definitions x histories of operations over every mutation route (constructor keywords, dict-to-spec casting, "
    "assignment, deletion, scalar helpers, element helpers with index/key/value addressing, nested keyword updates, top-level "
    "update/transform, transforms and preparers), argument values conforming or non-conforming at one structural position (value, "
    "element, dict key, dict value, nested attribute, container family); after every operation every stored managed attribute of every "
    "live instance is checked by the reference checker; distinct by (route = operation kind + call form, in-place?, slot + "
    "non-conformance tag, outcome, attribute type)"
)
ASSUMPTIONS = [
    "reference checker vlib/refcheck.py + the harness's own type terms (no library metadata consulted)",
    "direct mutation of contained lists/dicts by the user is never performed (out of scope by the statement)",
    "single-fault oracle only judges operations whose conforming twin succeeds on an identical replayed state",
]


def GATES(tier):
    return [("ops_judged", 500), ("walks", 500), ("attrs_checked", 2000), ("single_fault_judged", 100), ("single_fault_rejected", 50), ("bad_default_routes", 20), ("bounded_outside_values_judged", 300), ("tuple_bad_values_judged", 100),
            ("equal_value_other_type_cases", 10), ("transform_result_sweep", 200), ("slot:dictkey", 5), ("slot:elem", 20), ("slot:leafattr", 10), ("slot:attr", 50)]


def walk(ctx, world, insts, op, history, phase, case):
    """State invariant over all live instances. Returns True if a violation was reported."""
    ctx.count("walks")
    bad = []
    n = 0
    for cname, inst in dr.insts_with_class(world, insts):
        n += sum(1 for a in world.decl.attrs_of(cname) if a in inst.__dict__)
        bad += conform.violations_in_instance(world, cname, inst)
    ctx.count("attrs_checked", n)
    if bad:
        path, value, label = bad[0]
        t = cg.BY_NAME.get((op.get("attr") or "").split(",")[0], None)
        ctx.violation(
            "stored_value_conforms",
            f"after {dr.op_src(op)} ({phase}): {path} holds {safe_repr(value, 80)} which does not conform to {label}",
            features={
                "hkind": op.get("hkind", op["kind"]), "form": op.get("form"), "inplace": bool(op.get("inplace")),
                "position": (op.get("position") or "").split(":")[-2:] if op.get("position") else None,
                "validity": op.get("validity"), "attr_kind": t.kind if t else None, "elem": t.elem if t else None,
                "where": path.split("..")[-1] if ".." in path else "attr",
            },
            case=case,
            history=dr.describe_history(history),
            source=world.source[-1500:],
        )
        # repair the live state so that the same stored value is not reported after every later operation
        for cname, inst in dr.insts_with_class(world, insts):
            for p, _v, _l in conform.violations_in_instance(world, cname, inst):
                inst.__dict__.pop(p.split("..")[0].split(".")[1], None)
        return True
    return False


BAD_DEFAULT_SRC = """
from typing import List, Optional
from spec_classes import spec_class, Attr

@spec_class(bootstrap={boot})
class Base:
    count: int = 0
    label: str = "x"

class Sub(Base):          # a plain subclass overriding a default with a value of the wrong type
    count = "many"

@spec_class(bootstrap={boot})
class Prepared:
    width: int = 0
    sizes: Optional[List[int]] = Attr(default_factory=lambda: ["a"])   # the factory's product does not conform

    def _prepare_width(self, width):   # the preparer spoils the default only
        return "zero" if width == 0 else width

@spec_class(bootstrap={boot})
class Cached:
    source: int = 1
    derived: int = Attr(default="stale", invalidated_by=["source"])   # restored whenever `source` changes
"""


def directed_bad_defaults(ctx):
    """Defaults that do not conform (as overridden by a plain subclass, produced by a factory, turned out by the preparer):
    constructed with explicit conforming values, every route that *restores the default* must raise or leave a
    conforming state - it is an operation that would establish a non-conforming value like any other."""
    import spec_classes.utils.type_checking as tc

    routes = [
        ("Sub", {"count": 3}, "del x.count", lambda o: delattr(o, "count")),
        ("Sub", {"count": 3}, "x.reset_count()", lambda o: o.reset_count()),
        ("Sub", {"count": 3}, "x.reset_count(_inplace=True)", lambda o: o.reset_count(_inplace=True)),
        ("Sub", {"count": 3}, "x.reset()", lambda o: o.reset()),
        ("Sub", {"count": 3}, "x.reset(_inplace=True)", lambda o: o.reset(_inplace=True)),
        ("Prepared", {"width": 5, "sizes": [1]}, "del x.width", lambda o: delattr(o, "width")),
        ("Prepared", {"width": 5, "sizes": [1]}, "x.reset_width()", lambda o: o.reset_width()),
        ("Prepared", {"width": 5, "sizes": [1]}, "x.reset_sizes()", lambda o: o.reset_sizes()),
        ("Prepared", {"width": 5, "sizes": [1]}, "del x.sizes", lambda o: delattr(o, "sizes")),
        ("Cached", {"source": 1, "derived": 10}, "x.source = 2", lambda o: setattr(o, "source", 2)),
        ("Cached", {"source": 1, "derived": 10}, "x.with_source(2)", lambda o: o.with_source(2)),
        ("Cached", {"source": 1, "derived": 10}, "x.update(source=2, _inplace=True)", lambda o: o.update(source=2, _inplace=True)),
        ("Cached", {"source": 1, "derived": 10}, "x.reset_derived()", lambda o: o.reset_derived()),
    ]
    for boot in (True, False):
        ns = cg.exec_module(BAD_DEFAULT_SRC.format(boot=boot), prefix="verif_c03d").__dict__
        for cname, kw, label, fn in routes:
            ctx.count("ops_judged")
            ctx.count("bad_default_routes")
            obj = ns[cname](**kw)
            try:
                res = fn(obj)
                outcome = "returned"
            except (TypeError, ValueError):
                res, outcome = None, "rejected"
            except Exception as e:
                res, outcome = None, f"raised {type(e).__name__}"
            ctx.sig("bad_default", cname, label, outcome)
            for target in ([obj] if res is None or res is obj else [obj, res]):
                for attr, spec in type(target).__spec_class__.attrs.items():
                    if attr in target.__dict__ and not tc.check_type(target.__dict__[attr], spec.type):
                        ctx.violation("stored_value_conforms", f"[directed] {cname}(**{kw}); {label} ({outcome}): {cname}.{attr} (declared {spec.type}) now holds {target.__dict__[attr]!r}",
                                      features={"phase": "bad_default", "route": label.split("(")[0], "cls": cname, "lazy": not boot}, case=["bad_default", cname, label, boot])


BOUNDED_SRC = """
from typing import Dict, List
from spec_classes import spec_class
from spec_classes.types import bounded

Closed = bounded(float, ge=0, le=1)
Open = bounded(float, gt=0, lt=1)

@spec_class(bootstrap={boot})
class B:
    ratio: {T} = 0.5
    weights: List[{T}] = [0.25]
    shares: Dict[str, {T}] = {{"k": 0.75}}
"""


def directed_bounded_values(ctx):
    """Attributes, list elements and dict values declared with a validated (bounded) float type: numbers that are within no
    bound - NaN (every comparison with it is false), the infinities, values just outside - must be refused on every route or
    leave a conforming state. The oracle is the bound written out as plain comparisons, not the library's check."""
    nan, inf = float("nan"), float("inf")
    outside = [("nan", nan), ("inf", inf), ("-inf", -inf), ("1.5", 1.5), ("-0.1", -0.1), ("1.0000001", 1.0000001)]
    within = {"Closed": lambda v: isinstance(v, (int, float)) and 0 <= v <= 1, "Open": lambda v: isinstance(v, (int, float)) and 0 < v < 1}

    def setattr_(o, v):
        o.ratio = v
        return o

    routes = [
        ("B(ratio=v)", lambda B, v: B(ratio=v)),
        ("B(weights=[0.5, v])", lambda B, v: B(weights=[0.5, v])),
        ("B(shares={'a': v})", lambda B, v: B(shares={"a": v})),
        ("x.ratio = v", lambda B, v: setattr_(B(), v)),
        ("x.with_ratio(v)", lambda B, v: B().with_ratio(v)),
        ("x.with_ratio(v, _inplace=True)", lambda B, v: B().with_ratio(v, _inplace=True)),
        ("x.transform_ratio(-> v)", lambda B, v: B().transform_ratio(lambda r: v)),
        ("x.update(ratio=v)", lambda B, v: B().update(ratio=v)),
        ("x.transform(ratio=-> v, _inplace=True)", lambda B, v: B().transform(ratio=lambda r: v, _inplace=True)),
        ("x.with_weights([0.5, v])", lambda B, v: B().with_weights([0.5, v])),
        ("x.with_weight(v)", lambda B, v: B().with_weight(v)),
        ("x.with_weight(v, _index=0, _insert=True)", lambda B, v: B().with_weight(v, _index=0, _insert=True)),
        ("x.with_weight(v, _index=0, _inplace=True)", lambda B, v: B().with_weight(v, _index=0, _inplace=True)),
        ("x.transform_weight(0, -> v, _by_index=True)", lambda B, v: B().transform_weight(0, lambda w: v, _by_index=True)),
        ("x.with_share('a', v)", lambda B, v: B().with_share("a", v)),
        ("x.transform_share('k', -> v)", lambda B, v: B().transform_share("k", lambda w: v)),
        ("x.with_share('k', v, _inplace=True)", lambda B, v: B().with_share("k", v, _inplace=True)),
        ("x.update(shares={'a': v})", lambda B, v: B().update(shares={"a": v})),
    ]
    for boot in (True, False):
        for tname, ok in within.items():
            B = cg.exec_module(BOUNDED_SRC.format(boot=boot, T=tname), prefix="verif_c03b").__dict__["B"]
            for label, fn in routes:
                for vname, v in outside + [("0.5", 0.5)]:
                    ctx.count("ops_judged")
                    ctx.count("bounded_value_routes")
                    try:
                        res, outcome = fn(B, v), "returned"
                    except (TypeError, ValueError):
                        res, outcome = None, "rejected"
                    except Exception as e:
                        res, outcome = None, f"raised {type(e).__name__}"
                    ctx.sig("bounded_value", tname, label, vname, outcome)
                    if vname == "0.5":
                        if outcome != "returned":
                            ctx.violation("stored_value_conforms", f"[directed] {label} with v = 0.5 on B declared with {tname} = bounded(float, ...) was {outcome}: a conforming value must be accepted",
                                          features={"phase": "bounded_value", "route": label, "value": vname, "type": tname, "lazy": not boot}, case=["bounded_value", tname, label, vname, boot])
                        continue
                    ctx.count("bounded_outside_values_judged")
                    if res is None:
                        continue
                    held = [("ratio", res.__dict__.get("ratio", 0.5))] + [(f"weights[{i}]", w) for i, w in enumerate(res.__dict__.get("weights", []))] + [(f"shares[{k!r}]", w) for k, w in res.__dict__.get("shares", {}).items()]
                    bad = [(where, w) for where, w in held if not ok(w)]
                    if bad:
                        ctx.violation("stored_value_conforms", f"[directed] {label} with v = {vname} on B declared with {tname} = bounded(float, {'ge=0, le=1' if tname == 'Closed' else 'gt=0, lt=1'}) {outcome}: B.{bad[0][0]} now holds {bad[0][1]!r}, which is within no such bound",
                                      features={"phase": "bounded_value", "route": label, "value": vname, "type": tname, "lazy": not boot}, case=["bounded_value", tname, label, vname, boot])


TUPLE_SRC = """
from typing import Dict, List, Tuple
from spec_classes import spec_class

@spec_class(bootstrap={boot})
class T:
    pair: Tuple[int, str] = (1, "a")
    pairs: List[Tuple[int, str]] = [(1, "a")]
    many: Tuple[int, ...] = (1, 2)
"""


def directed_tuple_values(ctx):
    """Fixed-length and variadic tuple annotations as attribute and as list element: tuples that are too short, too long,
    permuted or of the wrong element type (and a list in place of the tuple) must be refused on every route or leave a
    conforming state; the oracle is the annotation spelt out with isinstance/len."""
    def pair_ok(v):
        return type(v) is tuple and len(v) == 2 and type(v[0]) is int and type(v[1]) is str

    def many_ok(v):
        return type(v) is tuple and all(type(x) is int for x in v)

    bad_pairs = [("()", ()), ("(1,)", (1,)), ("(1, 'a', 2)", (1, "a", 2)), ("('a', 1)", ("a", 1)), ("(1, 2)", (1, 2)), ("[1, 'a']", [1, "a"]), ("(1, 'a', 'b')", (1, "a", "b"))]
    bad_many = [("(1, 'a')", (1, "a")), ("('a',)", ("a",)), ("[1, 2]", [1, 2])]

    def set_(o, n, v):
        setattr(o, n, v)
        return o

    routes = [
        ("T(pair=v)", "pair", lambda T, v: T(pair=v)),
        ("x.pair = v", "pair", lambda T, v: set_(T(), "pair", v)),
        ("x.with_pair(v)", "pair", lambda T, v: T().with_pair(v)),
        ("x.with_pair(v, _inplace=True)", "pair", lambda T, v: T().with_pair(v, _inplace=True)),
        ("x.transform_pair(-> v)", "pair", lambda T, v: T().transform_pair(lambda p: v)),
        ("x.update(pair=v)", "pair", lambda T, v: T().update(pair=v)),
        ("T(pairs=[v])", "pair", lambda T, v: T(pairs=[v])),
        ("x.with_pairs([(2, 'b'), v])", "pair", lambda T, v: T().with_pairs([(2, "b"), v])),
        ("T(many=v)", "many", lambda T, v: T(many=v)),
        ("x.many = v", "many", lambda T, v: set_(T(), "many", v)),
        ("x.with_many(v)", "many", lambda T, v: T().with_many(v)),
        ("x.transform_many(-> v)", "many", lambda T, v: T().transform_many(lambda p: v)),
    ]
    for boot in (True, False):
        T = cg.exec_module(TUPLE_SRC.format(boot=boot), prefix="verif_c03t").__dict__["T"]
        for label, which, fn in routes:
            for vname, v in (bad_pairs + [("(2, 'b')", (2, "b"))] if which == "pair" else bad_many + [("()", ()), ("(3,)", (3,))]):
                good = (pair_ok if which == "pair" else many_ok)(v)
                ctx.count("ops_judged")
                ctx.count("tuple_value_routes")
                try:
                    res, outcome = fn(T, v), "returned"
                except (TypeError, ValueError):
                    res, outcome = None, "rejected"
                except Exception as e:
                    res, outcome = None, f"raised {type(e).__name__}"
                ctx.sig("tuple_value", label, vname, outcome)
                feats = {"phase": "tuple_value", "route": label, "value": vname, "lazy": not boot}
                if good:
                    if outcome != "returned":
                        ctx.violation("stored_value_conforms", f"[directed] {label} with v = {vname} was {outcome}: a conforming value must be accepted", features=feats, case=["tuple_value", label, vname, boot])
                    continue
                ctx.count("tuple_bad_values_judged")
                if res is None:
                    continue
                d = res.__dict__
                bad = ([("pair", d["pair"])] if "pair" in d and not pair_ok(d["pair"]) else []) + [(f"pairs[{i}]", w) for i, w in enumerate(d.get("pairs", [])) if not pair_ok(w)] + ([("many", d["many"])] if "many" in d and not many_ok(d["many"]) else [])
                if bad:
                    ctx.violation("stored_value_conforms", f"[directed] {label} with v = {vname} {outcome}: T.{bad[0][0]} (pair: Tuple[int, str], pairs: List[Tuple[int, str]], many: Tuple[int, ...]) now holds {bad[0][1]!r}", features=feats, case=["tuple_value", label, vname, boot])


def run(ctx, params):
    if params.get("directed"):
        directed_bad_defaults(ctx)
        directed_tuple_values(ctx)
        return directed_bounded_values(ctx)
    rng = ctx.rng
    for ci in range(params["cases"]):
        decl = cg.gen_module(rng, {"frozen": False})
        world = cg.World(decl)
        try:
            history, insts = dr.build_history(world, rng, rng.randint(0, 4))
            walk(ctx, world, insts, history[-1], history, "after initial history", [params.get("shard"), ci, "init"])
            for ji in range(params["ops_per_case"]):
                case = [params.get("shard"), ci, ji]
                # a valid operation first ...
                op = dr.gen_any_op(world, rng, insts, validity=rng.choice(["valid", "valid", "raising_cb", "missing_target", "nonconf"]), inplace=rng.random() < 0.5)
                slots = dr.value_slots(world, insts, op) if op.get("validity") == "valid" else []
                if slots and rng.random() < params["single_fault_fraction"]:
                    # ... confirmed to succeed on a replayed twin state ...
                    twin = dr.replay(world, history)
                    good = dr.execute(world, twin, op, scopes=(), saturate=False)
                    slot = rng.choice(slots)
                    bad_op = dr.substitute_nonconf(op, slot, rng, insts)
                    ctx.count(f"slot:{slot[2][0]}")
                    if "equal_value_other_type" in bad_op["position"]:
                        ctx.count("equal_value_other_type_cases")
                    step = dr.execute(world, insts, bad_op, scopes=(), saturate=False)
                    ctx.count("ops_judged")
                    t = cg.BY_NAME.get((bad_op.get("attr") or "").split(",")[0], None)
                    ctx.sig(bad_op.get("hkind", bad_op["kind"]), bad_op.get("form"), bool(bad_op.get("inplace")), slot[0], slot[2], bad_op["position"].split(":")[-1], step.outcome, type(step.exc).__name__ if step.exc else "", t.kind if t else None)
                    if good.outcome == "returned":
                        ctx.count("single_fault_judged")
                        if step.outcome == "raised":
                            if isinstance(step.exc, (TypeError, ValueError)):
                                ctx.count("single_fault_rejected")
                            else:
                                ctx.violation(
                                    "rejection_exception_class",
                                    f"{dr.op_src(bad_op)} (only irregularity: {bad_op['position']}) raised {type(step.exc).__name__}: {safe_repr(step.exc, 100)}; expected TypeError or ValueError",
                                    features={"hkind": bad_op.get("hkind", bad_op["kind"]), "form": bad_op.get("form"), "slot": slot[2][0], "exc": type(step.exc).__name__, "attr_kind": t.kind if t else None},
                                    case=case,
                                    history=dr.describe_history(history),
                                )
                        else:
                            ctx.count("single_fault_returned")
                    dr.register_result(world, insts, step)
                    history.append(bad_op)
                    walk(ctx, world, insts, bad_op, history, f"single non-conforming value at {bad_op['position']}, {step.outcome}", case)
                    if ci % 60 == 0 and ji < 2:
                        ctx.sample({"history": dr.describe_history(history[-4:]), "op": dr.op_src(bad_op), "position": bad_op["position"], "outcome": step.outcome, "exception": safe_repr(step.exc, 100) if step.exc else None})
                else:
                    step = dr.execute(world, insts, op, scopes=(), saturate=False)
                    ctx.count("ops_judged")
                    t = cg.BY_NAME.get((op.get("attr") or "").split(",")[0], None)
                    ctx.sig(op.get("hkind", op["kind"]), op.get("form"), bool(op.get("inplace")), op.get("validity"), (op.get("position") or "").split(":")[-1], step.outcome, t.kind if t else None)
                    dr.register_result(world, insts, step)
                    history.append(op)
                    walk(ctx, world, insts, op, history, f"{op.get('validity')}, {step.outcome}", case)
            # ---- transform-result sweep: every present attribute (and one element of every non-empty collection) is
            # transformed by functions whose result is of a wrong type (None, object, str/int swap, a float equal to the
            # old int, the key where the keyed element is expected)
            for target in range(min(len(insts), 3)):
                cname = dr.class_name(world, insts[target])
                if cname is None:
                    continue
                for n, (_o, a) in world.decl.attrs_of(cname).items():
                    cur = insts[target].__dict__.get(n, dr._ABSENT)
                    if cur is dr._ABSENT:
                        continue
                    hks = ["transform_attr"]
                    if a.info.kind in cg.COLLECTION_KINDS and len(cur) > 0:
                        hks.append("transform_item")
                    for hk in hks:
                        op = dr.gen_helper(world, rng, insts, target, hkind=hk, validity="nonconf", attr=n, inplace=rng.random() < 0.5)
                        if op.get("attr") != n or op.get("position") != "transform_result":
                            continue
                        step = dr.execute(world, insts, op, scopes=(), saturate=False)
                        ctx.count("ops_judged")
                        ctx.count("transform_result_sweep")
                        fn = next((r[1] for r in list(op["args"]) + list(op["kwargs"].values()) if isinstance(r, list) and r and r[0] == "fn"), None)
                        ctx.sig("sweep", hk, a.info.kind, a.info.elem, fn, bool(op.get("inplace")), step.outcome)
                        dr.register_result(world, insts, step)
                        history.append(op)
                        walk(ctx, world, insts, op, history, f"transform with ill-typed result {fn}, {step.outcome}", [params.get("shard"), ci, "sweep", n, hk])
        finally:
            world.close()


def plan(tier, seed):
    if tier == "quick":
        return [{"directed": True}] + [{"shard": i, "cases": 70, "ops_per_case": 12, "single_fault_fraction": 0.7} for i in range(16)]
    return [{"directed": True}] + [{"shard": i, "cases": 1500, "ops_per_case": 14, "single_fault_fraction": 0.7} for i in range(32)]
