"""
C11 - derived values are never stale after a dependency changes.

Monitor: invalidation reference model run in lock-step with generated classes. For every derived slot (cached or
uncached spec_property, attribute declared invalidated_by) the model keeps empty | cached | override and the dependency
graph from the generated declaration ('*' wildcard, chains through properties, dependants added in a subclass,
unmanaged-attribute dependencies). After every operation every derived value of every live instance is read and must
equal the getter formula evaluated by the harness on the current raw state (or the user override / the attribute's
default). Getter invocations are counted through the probe: a read of a slot the model holds as cached/overridden must not
call the getter (nothing is discarded by unrelated or failed mutations).
"""

from __future__ import annotations

import copy
import itertools

from vlib import classgen as cg
from vlib import faults
from vlib.core import safe_repr
from vlib.snap import alpha

PROP = "C11"
LEVEL = "exploration"
EVAL_COUNTER = "reads_judged"
RULE = (
    "dependency graphs over attributes {a, b, c(list), u(unmanaged)} and properties {p, q, r(subclass)}: every combination of "
    "(p cache on/off, p invalidated_by in {[a],[b],[a,b],[c],[u],['*']}, q cache on/off, q invalidated_by in {[p],[a],[p,b],['*']}, b plain or "
    "invalidated_by=[a], cache filled in __post_init__ or not, lazy/eager) x seeded histories interleaving reads, overrides, deletions of "
    "overrides and every mutation entry point (assignment, del, with_/update_/transform_/reset_ scalar helpers, element helpers, "
    "update/transform/reset; in place and on the returned copy; failing variants); distinct by (graph, entry point, in-place?, "
    "mutated node, slot states before, outcome)"
)
ASSUMPTIONS = [
    "getters are harness functions of exactly their declared (transitive) dependencies; the expected value is computed by the harness from raw instance state",
    "an override is dropped like a cache when a dependency changes (it lives in the same slot); overrides and caches must survive unrelated and failed mutations",
]


def GATES(tier):
    return [("reads_judged", 3000), ("stale_candidates", 300), ("cached_reads_without_getter", 200), ("override_reads", 50), ("chain_reads", 200),
            ("failed_mutations", 50), ("copy_results_checked", 200), ("wildcard_graphs", 3), ("subclass_dependants", 3), ("post_init_fills", 3), ("subclass_overrides_property", 5), ("plain_subclass_overrides_property", 5), ("managed_property_graphs", 5), ("subclass_overrides_managed_property", 1), ("plain_subclass_overrides_managed_property", 1), ("plain_subclass_dependants", 20), ("subclass_redefaults_dependant", 5),
            ("frozen_graphs", 5), ("deleter_graphs", 5), ("post_init_mutates_dependency", 5)] + [
        (f"entry:{e}", 10) for e in ("setattr", "delattr", "with", "transform_attr", "reset_attr", "with_item", "without_item", "update", "transform", "reset")
    ]


def make_source(g):
    """g: graph dict -> python source."""
    L = [
        "from typing import Any, List",
        "from spec_classes import spec_class, spec_property, Attr",
        "",
        f"@spec_class(bootstrap={g['boot']}{', frozen=True' if g.get('frozen') else ''})",
        "class M:",
        "    a: int = 1",
        f"    b: int = Attr(default=10{', invalidated_by=' + repr(g['b_inv']) if g['b_inv'] else ''})",
        "    c: List[int] = [1, 2]",
        "    u = 7",
    ] + (["    p: Any  # annotated: the property below is the default of a managed attribute"] if g.get("p_managed") else [])
    for name in ("p", "q"):
        spec = g[name]
        opts = [f"cache={spec['cache']}"]
        if spec["inv"]:
            opts.append(f"invalidated_by={spec['inv']!r}")
        reads = ", ".join(f"_rd(self, {d!r})" for d in spec["reads"])
        L += ["", f"    @spec_property({', '.join(opts)})", f"    def {name}(self):", f"        PROBE.enter('get:{name}')", f"        return [{name!r}, {reads}]"]
        if name == "p" and g.get("p_deleter"):
            # a user-written deleter: invalidation runs it, and still drops the cached / overridden value
            L += ["", "    @p.deleter", "    def p(self):", "        PROBE.enter('del:p')"]
    if g["post_init"]:
        L += ["", "    def __post_init__(self):", "        self.p", "        self.q"]
        if g["post_init"] == "fill_then_mutate":
            L += ["        self.a = self.a + 1  # a dependency changes after the caches were filled, still inside construction"]
    L += ["", f"@spec_class(bootstrap={g['boot']})", "class S(M):", f"    d: int = Attr(default=100, invalidated_by=['a'])"] + (["    b = 11  # re-defaulted here: still invalidated as declared by M"] if g.get("s_redefault_b") else []) + ["",
          "    @spec_property(cache=True, invalidated_by=['a'])", "    def r(self):", "        PROBE.enter('get:r')", "        return ['r', _rd(self, 'a')]", ""]
    if g.get("s_p"):
        sp = g["s_p"]
        reads = ", ".join(f"_rd(self, {d!r})" for d in sp["reads"])
        L += [f"    @spec_property(cache={sp['cache']}, invalidated_by={sp['inv']!r})", "    def p(self):  # overrides M.p with a longer dependency list", "        PROBE.enter('get:p')", f"        return ['p', {reads}]", ""]
    # an undecorated leaf subclass adding a dependant of its own (it shares M's metadata)
    L += ["class PL(M):", "    @spec_property(cache=True, invalidated_by=['a'])", "    def t(self):", "        PROBE.enter('get:t')", "        return ['t', _rd(self, 'a')]", ""]
    if g.get("pl_p"):
        sp = g["pl_p"]
        reads = ", ".join(f"_rd(self, {d!r})" for d in sp["reads"])
        L += [f"    @spec_property(cache={sp['cache']}, invalidated_by={sp['inv']!r})", "    def p(self):  # overrides M.p with a longer dependency list", "        PROBE.enter('get:p')", f"        return ['p', {reads}]", ""]
    return "\n".join(L)


def _rd(obj, name):
    try:
        return alpha(getattr(obj, name))
    except AttributeError:
        return "<missing>"


def reads_of(inv):
    out = []
    for d in inv:
        if d == "*":
            out += ["a", "b", "c"]
        else:
            out.append(d)
    return out


def all_graphs():
    gs = []
    for pc, pinv, qc, qinv, binv in itertools.product([True, False], [["a"], ["b"], ["a", "b"], ["c"], ["u"], ["*"]], [True, False], [["p"], ["a"], ["p", "b"], ["*"]], [None, ["a"], ["*"]]):
        qreads = [d for d in reads_of(qinv)]
        if qinv == ["*"]:
            qreads = ["a", "b", "c", "p"]
        # (wildcard + chain forms a cycle - p invalidated by q's slot, q by p: every transitive dependant is reset once)
        gs.append({"p": {"cache": pc, "inv": pinv, "reads": reads_of(pinv)}, "q": {"cache": qc, "inv": qinv, "reads": qreads}, "b_inv": binv})
    return gs


class Model:
    """Slot states + expected values for one live instance."""

    def __init__(self, g, cname):
        self.g, self.cname = g, cname
        self.slots = {n: ("empty", None) for n in self.props()}

    def props(self):
        return ["p", "q"] + (["r"] if self.cname == "S" else []) + (["t"] if self.cname == "PL" else [])

    def spec(self, n):
        if n in ("r", "t"):
            return {"cache": True, "inv": ["a"], "reads": ["a"]}
        if n == "p" and self.cname == "S" and self.g.get("s_p"):
            return self.g["s_p"]
        if n == "p" and self.cname == "PL" and self.g.get("pl_p"):
            return self.g["pl_p"]
        return self.g[n]

    def fork(self):
        m = Model(self.g, self.cname)
        m.slots = dict(self.slots)
        return m

    def dependants(self, changed):
        """Derived slots and invalidated_by attributes that (transitively) depend on `changed` (attribute or property name)."""
        out, frontier, seen = [], [changed], {changed}
        attr_deps = [("b", self.g["b_inv"])] + ([("d", ["a"])] if self.cname == "S" else [])
        while frontier:
            nxt = []
            for n in self.props():
                inv = self.spec(n)["inv"]
                if n not in seen and any(f != n and (f in inv or "*" in inv) for f in frontier):
                    seen.add(n)
                    nxt.append(n)
                    out.append(n)
            for attr, inv in attr_deps:
                if inv and attr not in seen and any(f != attr and (f in inv or "*" in inv) for f in frontier):
                    seen.add(attr)
                    nxt.append(attr)
                    out.append(attr)
            frontier = nxt
        return out

    def expected(self, inst, n, _depth=0):
        """Value a read of property n must produce now."""
        st, v = self.slots[n]
        if st == "override":
            return v
        spec = self.spec(n)
        vals = []
        for d in spec["reads"]:
            if d in self.props():
                vals.append(self.expected(inst, d, _depth + 1))
            elif d in inst.__dict__:
                vals.append(alpha(inst.__dict__[d]))
            elif d == "u":
                vals.append(alpha(getattr(type(inst), "u")))  # unmanaged class attribute
            else:
                vals.append("<missing>")
        return [n] + vals


def run(ctx, params):
    rng = ctx.rng
    graphs = all_graphs()
    graphs = graphs[params["part"] :: params["parts"]]
    if params.get("max_graphs"):
        graphs = rng.sample(graphs, min(len(graphs), params["max_graphs"]))
    for gi, g0 in enumerate(graphs):
        g = dict(g0, boot=rng.random() < 0.5, post_init=rng.choice([None, None, "fill", "fill_then_mutate"]), frozen=rng.random() < 0.2, p_deleter=rng.random() < 0.3)
        extra = [d for d in ("a", "b", "c") if d not in g0["p"]["inv"]]
        if "*" not in g0["p"]["inv"] and extra and rng.random() < 0.4:
            inv = list(g0["p"]["inv"]) + [extra[0]]
            g["s_p"] = {"cache": True, "inv": inv, "reads": reads_of(inv)}
            ctx.count("subclass_overrides_property")
        if "*" not in g0["p"]["inv"] and extra and rng.random() < 0.4:
            inv = list(g0["p"]["inv"]) + [extra[-1]]
            g["pl_p"] = {"cache": True, "inv": inv, "reads": reads_of(inv)}
            ctx.count("plain_subclass_overrides_property")
        if rng.random() < 0.4:
            g["p_managed"] = True
            ctx.count("managed_property_graphs")
            if g.get("s_p"):
                ctx.count("subclass_overrides_managed_property")
            if g.get("pl_p"):
                ctx.count("plain_subclass_overrides_managed_property")
        if g["b_inv"] and rng.random() < 0.5:
            g["s_redefault_b"] = True
            ctx.count("subclass_redefaults_dependant")
        if g["frozen"]:
            ctx.count("frozen_graphs")
        if g["p_deleter"]:
            ctx.count("deleter_graphs")
        if g["post_init"] == "fill_then_mutate":
            ctx.count("post_init_mutates_dependency")
        probe = faults.Probe()
        ns = cg.exec_module(make_source(g), extra={"PROBE": probe, "_rd": _rd}, prefix="verif_c11").__dict__
        glabel = (f"p(c={int(g['p']['cache'])},inv={g['p']['inv']}) q(c={int(g['q']['cache'])},inv={g['q']['inv']}) b_inv={g['b_inv']} post_init={g['post_init']}"
                  f"{' frozen' if g['frozen'] else ''}{' p.deleter' if g['p_deleter'] else ''}{' S.p.inv=' + str(g['s_p']['inv']) if g.get('s_p') else ''}{' PL.p.inv=' + str(g['pl_p']['inv']) if g.get('pl_p') else ''}{' p:managed' if g.get('p_managed') else ''}")
        if "*" in g["p"]["inv"] or "*" in g["q"]["inv"]:
            ctx.count("wildcard_graphs")
        if g["post_init"]:
            ctx.count("post_init_fills")
        for hi in range(params["histories"]):
            live = []  # [(instance, model)]

            def new_instance(cname):
                inst = ns[cname]()
                m = Model(g, cname)
                if g["post_init"]:
                    for n in ("p", "q"):
                        if m.spec(n)["cache"]:
                            m.slots[n] = ("cached", None)
                    if g["post_init"] == "fill_then_mutate":
                        for d in m.dependants("a"):
                            if d in m.slots:
                                m.slots[d] = ("empty", None)
                live.append((inst, m))
                if cname == "S":
                    ctx.count("subclass_dependants")
                if cname == "PL":
                    ctx.count("plain_subclass_dependants")

            new_instance("M")
            new_instance(rng.choice(["M", "S", "PL"]))
            trace = []
            for step in range(params["length"]):
                idx = rng.randrange(len(live))
                inst, m = live[idx]
                kind = rng.choice(["read", "read", "override", "del_override", "mutate", "mutate", "mutate", "mutate", "fail", "new"])
                case = [params.get("shard"), gi, hi, step]
                desc = None
                if kind == "new" and len(live) < 5:
                    new_instance(rng.choice(["M", "S", "PL"]))
                    continue
                if kind == "read":
                    pass
                elif kind == "override":
                    n = rng.choice(m.props())
                    v = ["override", step]
                    try:
                        setattr(inst, n, v)
                    except Exception as e:
                        if not g["frozen"]:
                            raise
                        desc = f"i{idx}.{n} = {v} -> {type(e).__name__}"
                    else:
                        m.slots[n] = ("override", v)
                        desc = f"i{idx}.{n} = {v}"
                        for d in m.dependants(n):
                            if d in m.slots:
                                m.slots[d] = ("empty", None)
                elif kind == "del_override":
                    n = rng.choice(m.props())
                    try:
                        delattr(inst, n)
                        m.slots[n] = ("empty", None)
                        for d in m.dependants(n):
                            if d in m.slots:
                                m.slots[d] = ("empty", None)
                        desc = f"del i{idx}.{n}"
                    except AttributeError:
                        desc = f"del i{idx}.{n} (nothing to delete)"
                    except Exception as e:
                        if not g["frozen"]:
                            raise
                        desc = f"del i{idx}.{n} -> {type(e).__name__}"
                elif kind in ("mutate", "fail"):
                    target = rng.choice(["a", "a", "b", "c", "u"] + (["d"] if m.cname == "S" else []))
                    inplace = rng.random() < 0.6
                    entry, fn = choose_entry(rng, target, kind == "fail")
                    ctx.count(f"entry:{entry}")
                    desc = f"i{idx}.{entry}({target}{', in place' if inplace else ''}{', failing' if kind == 'fail' else ''})"
                    pre_counts = dict(probe.total)
                    try:
                        res = fn(inst, inplace)
                        ok = True
                    except Exception as e:
                        res, ok = None, False
                        desc += f" -> {type(e).__name__}"
                    if kind == "fail":
                        ctx.count("failed_mutations")
                    changed_attrs = changed_by(entry, target, g) if ok else []
                    subject_m = m
                    if ok and not inplace and entry not in ("setattr", "delattr"):
                        # copy-on-write: the receiver keeps its slots, the result starts from a copy of them
                        subject_m = m.fork()
                        if res is not None and res is not inst:
                            live.append((res, subject_m))
                            ctx.count("copy_results_checked")
                            if len(live) > 6:
                                live.pop(0)
                    if "p" in changed_attrs and subject_m.slots["p"][0] == "empty":
                        # resetting a managed property that holds no cached / overriding value changes nothing: whether its
                        # dependants are discarded all the same is not specified - the model follows what is observed
                        changed_attrs = [ca for ca in changed_attrs if ca != "p"]
                        subject_x = res if (res is not None and res is not inst and not inplace) else inst
                        others = {d for ca in changed_attrs for d in subject_m.dependants(ca)}
                        for d in subject_m.dependants("p"):
                            if d in subject_m.slots and d not in others and d not in subject_x.__dict__:
                                subject_m.slots[d] = ("empty", None)
                        ctx.count("noop_reset_of_managed_property")
                    for ca in changed_attrs:
                        if ca in subject_m.slots:
                            subject_m.slots[ca] = ("empty", None)
                        for d in subject_m.dependants(ca):
                            if d in subject_m.slots:
                                subject_m.slots[d] = ("empty", None)
                    if ok and changed_attrs:
                        ctx.count("stale_candidates")
                        # attributes declared invalidated_by=[a] are back at their default on the mutated object
                        subject = res if (res is not None and res is not inst and not inplace and entry not in ("setattr", "delattr")) else inst
                        reset_expected = {d for ca in changed_attrs for d in subject_m.dependants(ca)}
                        if reset_expected & {"b", "d"}:
                            for attr, inv, default in (("b", g["b_inv"], 11 if (subject_m.cname == "S" and g.get("s_redefault_b")) else 10), ("d", ["a"] if subject_m.cname == "S" else None, 100)):
                                if attr in reset_expected and (attr not in changed_attrs or entry == "reset"):
                                    ctx.count("reads_judged")
                                    if subject.__dict__.get(attr, "<missing>") != default:
                                        ctx.violation("invalidated_attribute_reset", f"[{glabel}] after {desc}: {attr} (invalidated_by {inv}) is {subject.__dict__.get(attr, '<missing>')!r}, expected its default {default}",
                                                      features={"node": attr, "last": entry, "inplace": inplace}, case=case, source=make_source(g)[-900:])
                trace.append(desc or "read")
                # ---- read every derived value of every live instance and judge it ----------------------------
                for j, (x, mx) in enumerate(live):
                    for n in mx.props():
                        st, _v = mx.slots[n]
                        before = probe.total.get(f"get:{n}", 0)
                        try:
                            got = getattr(x, n)
                        except Exception as e:
                            ctx.violation("derived_read", f"[{glabel}] after {trace[-4:]}: reading i{j}.{n} raised {type(e).__name__}: {e}", features={"graph": glabel, "node": n}, case=case)
                            continue
                        calls = probe.total.get(f"get:{n}", 0) - before
                        exp = mx.expected(x, n)
                        ctx.count("reads_judged")
                        if st == "override":
                            ctx.count("override_reads")
                        if any(d in mx.props() for d in mx.spec(n)["reads"]):
                            ctx.count("chain_reads")
                        feats = {"node": n, "cache": mx.spec(n)["cache"], "inv": mx.spec(n)["inv"], "slot": st, "last": (desc or "read").split("(")[0].split(".")[-1], "graph_b_inv": bool(g["b_inv"]),
                                 "chain": any(d in mx.props() for d in mx.spec(n)["reads"]), "post_init": g["post_init"], "p_cache": g["p"]["cache"], "q_cache": g["q"]["cache"]}
                        ctx.sig(glabel, n, st, feats["last"], calls > 0)
                        if alpha(got) != exp:
                            ctx.violation(
                                "derived_value_fresh",
                                f"[{glabel}] after {trace[-5:]}: i{j}.{n} reads {safe_repr(got, 80)} but its dependencies now give {safe_repr(exp, 80)} (model slot: {st}); raw state {safe_repr({k: v for k, v in x.__dict__.items()}, 120)}",
                                features=feats, case=case, source=make_source(g)[-900:],
                            )
                            mx.slots[n] = ("empty", None)
                            x.__dict__.pop(n, None)
                            continue
                        if st in ("cached", "override") and calls > 0 and mx.spec(n)["cache"]:
                            ctx.violation(
                                "nothing_discarded_needlessly",
                                f"[{glabel}] after {trace[-5:]}: reading i{j}.{n} called the getter although the {st} value should have survived (no dependency changed)",
                                features=feats, case=case, source=make_source(g)[-900:],
                            )
                        elif st in ("cached", "override") and calls == 0:
                            ctx.count("cached_reads_without_getter")
                        # the read (re)fills the cache
                        if st != "override":
                            mx.slots[n] = ("cached", None) if mx.spec(n)["cache"] else ("empty", None)
                            # reading n may have read (and cached) its property dependencies too
                            for d in mx.spec(n)["reads"]:
                                if d in mx.props() and mx.slots[d][0] == "empty" and mx.spec(d)["cache"] and calls > 0:
                                    mx.slots[d] = ("cached", None)
                    # invalidated_by attributes back at default
                    for attr, inv, default in (("b", g["b_inv"], 10), ("d", ["a"] if mx.cname == "S" else None, 100)):
                        pass
            if gi % 60 == 0 and hi == 0:
                ctx.sample({"graph": glabel, "history": trace[:10]})


def changed_by(entry, target, g):
    if entry == "reset":
        # (every managed attribute goes back to its default - a managed property to its getter)
        return ["a", "b", "c", "d"] + (["p"] if g.get("p_managed") else [])
    return [target]


def choose_entry(rng, target, failing):
    """(entry label, fn(inst, inplace) -> result) mutating attribute `target` through one library entry point."""
    v = rng.choice([2, 3, 5, 8])
    if target == "u":
        return "setattr", lambda x, ip: setattr(x, "u", v)
    if target == "c":
        opts = [
            ("with_item", lambda x, ip: x.with_c_item(v, _inplace=ip)),
            ("without_item", lambda x, ip: x.without_c_item(0, _by_index=True, _inplace=ip)),
            ("with", lambda x, ip: x.with_c([v, v + 1], _inplace=ip)),
            ("setattr", lambda x, ip: setattr(x, "c", [v])),
            ("update", lambda x, ip: x.update(c=[v], _inplace=ip)),
        ]
        if failing:
            opts = [("with_item", lambda x, ip: x.with_c_item("bad", _inplace=ip)), ("without_item", lambda x, ip: x.without_c_item(99, _by_index=True, _inplace=ip))]
        return rng.choice(opts)
    opts = [
        ("setattr", lambda x, ip: setattr(x, target, v)),
        ("delattr", lambda x, ip: delattr(x, target)),
        ("with", lambda x, ip: getattr(x, f"with_{target}")(v, _inplace=ip)),
        ("transform_attr", lambda x, ip: getattr(x, f"transform_{target}")(lambda o: o + v, _inplace=ip)),
        ("reset_attr", lambda x, ip: getattr(x, f"reset_{target}")(_inplace=ip)),
        ("update", lambda x, ip: x.update(**{target: v}, _inplace=ip)),
        ("transform", lambda x, ip: x.transform(**{target: (lambda o: o + v)}, _inplace=ip)),
        ("reset", lambda x, ip: x.reset(_inplace=ip)),
    ]
    if failing:
        opts = [
            ("setattr", lambda x, ip: setattr(x, target, "bad")),
            ("with", lambda x, ip: getattr(x, f"with_{target}")("bad", _inplace=ip)),
            ("transform_attr", lambda x, ip: getattr(x, f"transform_{target}")(lambda o: (_ for _ in ()).throw(ValueError("boom")), _inplace=ip)),
            ("update", lambda x, ip: x.update(**{target: "bad"}, _inplace=ip)),
        ]
    return rng.choice(opts)


def plan(tier, seed):
    if tier == "quick":
        return [{"shard": i, "part": i, "parts": 16, "histories": 4, "length": 14} for i in range(16)]
    return [{"shard": i, "part": i % 16, "parts": 16, "histories": 30, "length": 20} for i in range(32)]
