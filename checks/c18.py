"""
C18 - Alias mirrors its target until overridden; passthrough writes reach the target.

Monitor: two-variable (target value, local override) reference model run in
lock-step with real Alias / DeprecatedAlias descriptors on plain and spec-class
hosts, over exhaustively enumerated operation sequences. After every operation
the alias view and the target view of the live instance are compared with the
model; copies (deepcopy, copy-on-write helpers) fork the model and the
originals are re-checked at the end of the sequence (helpers act on the copy only).
"""

from __future__ import annotations

import copy
import itertools
import warnings

from vlib.core import safe_repr

PROP = "C18"
LEVEL = "exploration"
EVAL_COUNTER = "ops_judged"
GATES = ["ops_judged", "sequences", "fallback_reads", "override_reads", "passthrough_writes", "forks_rechecked", "deprecation_warnings_seen", "type_rejections", "directed_path_cases", "directed_collection_alias_cases"]
RULE = (
    "all alias configurations (Alias/DeprecatedAlias x passthrough x transform x fallback x path shape in {t, a.b, d[\"k\"], a.d[\"k\"], "
    "d[\"k\"][\"j\"]}) on plain and spec-class hosts x all operation sequences up to the tier's length over {read/write/delete alias, "
    "read/write/delete target, deepcopy, with_al/with_t/reset_al on spec hosts, ill-typed write on spec hosts}; a case is distinct by "
    "(configuration, host, operation-kind sequence, outcome classes)"
)
ASSUMPTIONS = [
    "two-variable model in checks/c18.py; which of AttributeError/KeyError a missing item-path target raises on passthrough deletion is not judged",
    "DeprecatedAlias: at least one warning of the configured class per alias access is required (exactly-one is counted, not required, on spec hosts)",
    "(attribute steps after item steps are legal paths since repair 4cd3092 and are judged by the directed path cases)",
]
EXHAUSTIVE = {"quick": True, "thorough": True}

SHAPES = {
    "plain": "t",
    "dotted": "a.b",
    "item": 'd["k"]',
    "mixed": 'a.d["k"]',
    "item2": "d[\"k\"]['j']",
    "item_esc": 'd["say \\"hi\\" \\\\ it\'s"]',  # a key with escaped quotes and an escaped backslash
}
ESC_KEY = 'say "hi" \\ it\'s'  # what that path step denotes
FALLBACK = [1, 2]


class CustomWarning(UserWarning):
    pass


class Inner:
    def __init__(self):
        self.d = {}

    def __eq__(self, other):
        return isinstance(other, Inner) and self.__dict__ == other.__dict__

    def __repr__(self):
        return f"Inner({self.__dict__})"


def double(x):
    return x * 2


def make_host(cfg):
    """Return (factory() -> fresh instance, fallback object or None)."""
    from spec_classes import MISSING, Alias, DeprecatedAlias, spec_class

    fb = list(FALLBACK) if cfg["fallback"] else MISSING
    kw = dict(passthrough=cfg["passthrough"], transform=double if cfg["transform"] else None, fallback=fb)
    if cfg["deprecated"]:
        al = DeprecatedAlias(SHAPES[cfg["shape"]], warning_cls=CustomWarning, **kw)
    else:
        al = Alias(SHAPES[cfg["shape"]], **kw)
    shape = cfg["shape"]

    def init_d():
        return {"k": {}} if shape == "item2" else {}

    if cfg["host"] == "plain":

        def __init__(self):
            self.a = Inner()
            self.d = init_d()

        Host = type("Host", (), {"al": al, "__init__": __init__})
        return (lambda: Host()), (fb if cfg["fallback"] else None)

    import typing

    ns = {"__annotations__": {"t": int, "a": typing.Any, "d": typing.Dict[str, typing.Any], "al": int}, "al": al}
    Host = type("Host", (), ns)
    with warnings.catch_warnings():
        warnings.simplefilter("ignore")
        Host = spec_class(bootstrap=True)(Host)

    def factory():
        with warnings.catch_warnings():
            warnings.simplefilter("ignore")
            return Host(a=Inner(), d=init_d())

    return factory, (fb if cfg["fallback"] else None)


# -- target access by shape -------------------------------------------------


def t_get(h, shape):
    if shape == "plain":
        return h.t
    if shape == "dotted":
        return h.a.b
    if shape == "item":
        return h.d["k"]
    if shape == "item_esc":
        return h.d[ESC_KEY]
    if shape == "mixed":
        return h.a.d["k"]
    return h.d["k"]["j"]


def t_set(h, shape, v):
    if shape == "plain":
        h.t = v
    elif shape == "dotted":
        h.a.b = v
    elif shape == "item":
        h.d["k"] = v
    elif shape == "item_esc":
        h.d[ESC_KEY] = v
    elif shape == "mixed":
        h.a.d["k"] = v
    else:
        h.d["k"]["j"] = v


def t_del(h, shape):
    if shape == "plain":
        del h.t
    elif shape == "dotted":
        del h.a.b
    elif shape == "item":
        del h.d["k"]
    elif shape == "item_esc":
        del h.d[ESC_KEY]
    elif shape == "mixed":
        del h.a.d["k"]
    else:
        del h.d["k"]["j"]


# -- model --------------------------------------------------------------------

ABSENT = object()


class Model:
    def __init__(self, cfg):
        self.cfg = cfg
        self.target = ABSENT
        self.override = ABSENT

    def fork(self):
        m = Model(self.cfg)
        m.target, m.override = self.target, self.override
        return m

    def read_alias(self):
        c = self.cfg
        if not c["passthrough"] and self.override is not ABSENT:
            return ("ok", self.override, "override")
        if self.target is not ABSENT:
            return ("ok", double(self.target) if c["transform"] else self.target, "target")
        if c["fallback"]:
            return ("ok", list(FALLBACK), "fallback")
        return ("exc", (AttributeError,), "missing")

    def read_target(self):
        if self.target is ABSENT:
            return ("exc", (AttributeError, KeyError), "missing")
        return ("ok", self.target, "target")

    def write_alias(self, v, typed):
        if typed and not isinstance(v, int):
            return ("exc", (TypeError,), "type")
        if self.cfg["passthrough"]:
            self.target = v
            return ("ok", None, "forwarded")
        self.override = v
        return ("ok", None, "override_set")

    def delete_alias(self):
        if self.cfg["passthrough"]:
            if self.target is ABSENT:
                return ("exc", (AttributeError, KeyError), "missing")
            self.target = ABSENT
            return ("ok", None, "forwarded")
        if self.override is ABSENT:
            return ("exc", (AttributeError,), "no_override")
        self.override = ABSENT
        return ("ok", None, "override_removed")


PLAIN_OPS = ["ra", "wa1", "wa2", "da", "wt1", "wt2", "dt", "dc"]
SPEC_OPS = PLAIN_OPS + ["wa_bad", "with_al", "reset_al", "with_tgt"]
ALIAS_OPS = {"ra", "wa1", "wa2", "da", "wa_bad", "with_al", "reset_al"}


def do_real(h, op, shape):
    """Execute op; return (outcome, new current instance or None)."""
    new = None
    try:
        if op == "ra":
            r = h.al
        elif op in ("wa1", "wa2", "wa_bad"):
            h.al = {"wa1": 3, "wa2": 4, "wa_bad": "bad"}[op]
            r = None
        elif op == "da":
            del h.al
            r = None
        elif op in ("wt1", "wt2"):
            t_set(h, shape, 10 if op == "wt1" else 20)
            r = None
        elif op == "dt":
            t_del(h, shape)
            r = None
        elif op == "dc":
            new = copy.deepcopy(h)
            r = None
        elif op == "with_al":
            new = h.with_al(5)
            r = None
        elif op == "reset_al":
            new = h.reset_al()
            r = None
        elif op == "with_tgt":
            if shape == "plain":
                new = h.with_t(30)
            elif shape in ("dotted", "mixed"):
                a2 = copy.deepcopy(h.a)
                if shape == "dotted":
                    a2.b = 30
                else:
                    a2.d["k"] = 30
                new = h.with_a(a2)
            elif shape == "item":
                new = h.with_d_item("k", 30)
            elif shape == "item_esc":
                new = h.with_d_item(ESC_KEY, 30)
            else:
                new = h.transform_d_item("k", lambda inner: dict(inner, j=30))
            r = None
        else:
            raise ValueError(op)
        return ("ok", r), new
    except BaseException as e:  # noqa
        return ("exc", type(e), e), None


def do_model(m, op, typed):
    """Return (expected outcome, forked model or None)."""
    if op == "ra":
        return m.read_alias(), None
    if op in ("wa1", "wa2", "wa_bad"):
        return m.write_alias({"wa1": 3, "wa2": 4, "wa_bad": "bad"}[op], typed), None
    if op == "da":
        return m.delete_alias(), None
    if op in ("wt1", "wt2"):
        m.target = 10 if op == "wt1" else 20
        return ("ok", None, "target_set"), None
    if op == "dt":
        if m.target is ABSENT:
            return ("exc", (AttributeError, KeyError), "missing"), None
        m.target = ABSENT
        return ("ok", None, "target_removed"), None
    if op == "dc":
        return ("ok", None, "copied"), m.fork()
    if op == "with_al":
        f = m.fork()
        out = f.write_alias(5, typed)
        return out, (f if out[0] == "ok" else None)
    if op == "reset_al":
        f = m.fork()
        out = f.delete_alias()
        return out, (f if out[0] == "ok" else None)
    if op == "with_tgt":
        f = m.fork()
        f.target = 30
        return ("ok", None, "copied_target_set"), f
    raise ValueError(op)


def outcome_matches(got, exp):
    if exp[0] == "exc":
        return got[0] == "exc" and issubclass(got[1], exp[1])
    return got[0] == "ok" and got[1] == exp[1]


def fmt_got(got):
    return f"raises {got[1].__name__}: {str(got[2])[:70]}" if got[0] == "exc" else safe_repr(got[1], 40)


def fmt_exp(exp):
    return ("raises " + "/".join(e.__name__ for e in exp[1])) if exp[0] == "exc" else f"{safe_repr(exp[1], 40)} ({exp[2]})"


def check_views(h, m, shape, fbobj, last_fb):
    """Compare alias and target reads of instance h with model m. Returns (mismatch or None, fallback value read or None)."""
    with warnings.catch_warnings():
        warnings.simplefilter("ignore")
        try:
            ga = ("ok", h.al)
        except BaseException as e:  # noqa
            ga = ("exc", type(e), e)
        try:
            gt = ("ok", t_get(h, shape))
        except BaseException as e:  # noqa
            gt = ("exc", type(e), e)
    ea, et = m.read_alias(), m.read_target()
    if not outcome_matches(ga, ea):
        return ("read alias", fmt_got(ga), fmt_exp(ea)), None
    if not outcome_matches(gt, et):
        return ("read target", fmt_got(gt), fmt_exp(et)), None
    if ea[0] == "ok" and ea[2] == "fallback":
        if ga[1] is fbobj:
            return ("fallback identity", "the declared fallback object itself", "a fresh copy"), None
        if last_fb is not None and ga[1] is last_fb:
            return ("fallback identity", "same object as the previous fallback read", "a fresh copy each time"), None
        if fbobj != FALLBACK:
            return ("declared fallback", safe_repr(fbobj), safe_repr(FALLBACK)), None
        return None, ga[1]
    return None, None


def run_sequence(ctx, cfg, factory, fbobj, seq, case):
    shape = cfg["shape"]
    typed = cfg["host"] == "spec"
    h = factory()
    m = Model(cfg)
    forks = []  # (instance, model) of superseded originals
    outcomes = []
    last_fb = None
    cfg_label = cfg_str(cfg)
    for i, op in enumerate(seq):
        exp, fork_model = do_model(m, op, typed)
        with warnings.catch_warnings(record=True) as wlist:
            warnings.simplefilter("always")
            got, new = do_real(h, op, shape)
        ctx.count("ops_judged")
        outcomes.append(exp[2])
        feats = dict(cfg, op=op, expected=exp[2], prev_ops=sorted(set(seq[:i])))
        if exp[2] == "type":
            ctx.count("type_rejections")
        if exp[2] == "forwarded" and op != "da":
            ctx.count("passthrough_writes")

        def report(monitor, what, **kw):
            ctx.violation(monitor, f"{cfg_label}: sequence {list(seq[: i + 1])}: {what}", features=dict(feats, **kw), case=case)

        if not outcome_matches(got, exp):
            report("alias_protocol", f"step {i} `{op}` -> {fmt_got(got)}, model {fmt_exp(exp)}")
            return outcomes
        if op == "ra" and exp[0] == "ok":
            ctx.count({"override": "override_reads", "fallback": "fallback_reads", "target": "target_reads"}[exp[2]])
            if exp[2] == "fallback":
                if got[1] is fbobj or (last_fb is not None and got[1] is last_fb):
                    report("fallback_fresh_copy", f"step {i} read returned a shared fallback object instead of a fresh copy")
                    return outcomes
                last_fb = got[1]
                got[1].append("mutated by reader")  # must not leak into later reads
        # deprecation warnings
        if cfg["deprecated"]:
            mine = [w for w in wlist if issubclass(w.category, CustomWarning)]
            if op in ALIAS_OPS:
                if exp[2] != "type" and not mine:
                    report("deprecation_warning", f"step {i} `{op}` accessed the deprecated alias without a {CustomWarning.__name__}")
                    return outcomes
                ctx.count("deprecation_warnings_seen", len(mine))
                if len(mine) == 1:
                    ctx.count("deprecation_exactly_one")
            elif cfg["host"] == "plain" and mine:
                report("deprecation_warning", f"step {i} `{op}` does not touch the alias but warned {len(mine)}x")
                return outcomes
        else:
            if any(issubclass(w.category, (CustomWarning, DeprecationWarning)) for w in wlist):
                report("deprecation_warning", f"step {i} `{op}` on a plain Alias emitted a deprecation warning")
                return outcomes
        if new is not None:
            if new is h and cfg["host"] == "spec" and op != "dc":
                report("copy_identity", f"step {i} `{op}` returned the receiver itself")
                return outcomes
            forks.append((h, m))
            h, m = new, fork_model
        mism, fbv = check_views(h, m, shape, fbobj, last_fb)
        if mism:
            report("alias_view", f"after step {i} `{op}`: {mism[0]} = {mism[1]}, model {mism[2]}", observation=mism[0])
            return outcomes
        if fbv is not None:
            last_fb = fbv
    for k, (fh, fm) in enumerate(forks):
        ctx.count("forks_rechecked")
        mism, _ = check_views(fh, fm, shape, fbobj, None)
        if mism:
            ctx.violation(
                "copy_isolation",
                f"{cfg_label}: sequence {list(seq)}: instance superseded by copy #{k} changed afterwards: {mism[0]} = {mism[1]}, model {mism[2]}",
                features=dict(cfg, op="fork_recheck", observation=mism[0], ops=sorted(set(seq))),
                case=case,
            )
            break
    if fbobj is not None and fbobj != FALLBACK:
        ctx.violation("fallback_mutated", f"{cfg_label}: sequence {list(seq)} mutated the declared fallback to {fbobj!r}", features=dict(cfg, op="fallback"), case=case)
        fbobj[:] = FALLBACK
    return outcomes


def cfg_str(cfg):
    return (
        f"{'DeprecatedAlias' if cfg['deprecated'] else 'Alias'}({SHAPES[cfg['shape']]!r}, passthrough={cfg['passthrough']}, "
        f"transform={'double' if cfg['transform'] else None}, fallback={'[1,2]' if cfg['fallback'] else 'MISSING'}) on {cfg['host']} host"
    )


def all_configs():
    out = []
    for dep, pt, tr, fb, shape, host in itertools.product([False, True], [False, True], [False, True], [False, True], SHAPES, ["plain", "spec"]):
        out.append({"deprecated": dep, "passthrough": pt, "transform": tr, "fallback": fb, "shape": shape, "host": host})
    return out


DIRECTED_SRC = """
from typing import Dict, List, Set
from spec_classes import spec_class, Alias

@spec_class
class Item:
    xs: List[int] = [1, 2]
    d: Dict[str, int] = {"a": 1}
    s: Set[int] = {1}
    ys: List[int] = Alias("xs")
    e: Dict[str, int] = Alias("d")
    t: Set[int] = Alias("s")
"""


class _Port:
    def __init__(self, port):
        self.port = port


def directed_cases(ctx):
    """
    (1) path grammar: every combination of step kinds (attribute / ["key"] / ['key']) incl. an attribute step after
        an item step and keys containing dots is a legal path and reads the value a plain expression reads;
    (2) element helpers on a non-passthrough alias of a collection, also _inplace=True, shadow the target without
        modifying it, and deleting the alias restores the live view.
    """
    from spec_classes import Alias

    paths = {
        'registry["main"].port': lambda h: h.registry["main"].port,
        "registry['main'].port": lambda h: h.registry["main"].port,
        'settings["db.port"]': lambda h: h.settings["db.port"],
        "settings['db.port']": lambda h: h.settings["db.port"],
        'nested["a"]["b"]': lambda h: h.nested["a"]["b"],
        'nested["a"][\'b\']': lambda h: h.nested["a"]["b"],
        'holder.registry["main"].port': lambda h: h.holder.registry["main"].port,
    }
    for path, plain in paths.items():
        ctx.count("ops_judged")
        ctx.count("directed_path_cases")
        feats = {"shape": "directed_path", "op": "ra", "path_kind": "attr_after_item" if "]." in path else "item"}
        try:
            al = Alias(path)

            class Host:
                pass

            Host.al = al
            al.__set_name__(Host, "al")
            h = Host()
            h.registry = {"main": _Port(8080)}
            h.settings = {"db.port": 5432}
            h.nested = {"a": {"b": 7}}
            h.holder = Host()
            h.holder.registry = {"main": _Port(9090)}
            got, want = h.al, plain(h)
        except Exception as e:
            ctx.violation("alias_protocol", f"Alias({path!r}) (a legal attribute path) raised {type(e).__name__}: {e}", features=feats, case=["directed_path", path])
            continue
        if got != want:
            ctx.violation("alias_view", f"Alias({path!r}) reads {got!r}, the plain expression reads {want!r}", features=feats, case=["directed_path", path])
    ns = cg_exec(DIRECTED_SRC)
    Item = ns["Item"]
    ops = [
        ("with_y(5)", "xs", "ys", lambda i, ip: i.with_y(5, _inplace=ip), [1, 2], [1, 2, 5]),
        ("without_y(1)", "xs", "ys", lambda i, ip: i.without_y(1, _by_index=False, _inplace=ip), [1, 2], [2]),
        ("update_y(0, 9)", "xs", "ys", lambda i, ip: i.update_y(0, 9, _by_index=True, _inplace=ip), [1, 2], [9, 2]),
        ("transform_y(0, inc)", "xs", "ys", lambda i, ip: i.transform_y(0, lambda v: v + 1, _by_index=True, _inplace=ip), [1, 2], [2, 2]),
        ("with_e_item('b', 2)", "d", "e", lambda i, ip: i.with_e_item("b", 2, _inplace=ip), {"a": 1}, {"a": 1, "b": 2}),
        ("without_e_item('a')", "d", "e", lambda i, ip: i.without_e_item("a", _inplace=ip), {"a": 1}, {}),
        ("with_t_item(2)", "s", "t", lambda i, ip: i.with_t_item(2, _inplace=ip), {1}, {1, 2}),
        ("without_t_item(1)", "s", "t", lambda i, ip: i.without_t_item(1, _inplace=ip), {1}, set()),
    ]
    for label, tgt, al, fn, tgt_want, al_want in ops:
        for ip in (False, True):
            ctx.count("ops_judged")
            ctx.count("directed_collection_alias_cases")
            feats = {"shape": "directed_collection_alias", "op": label.split("(")[0], "inplace": ip, "passthrough": False}
            item = Item()
            try:
                r = fn(item, ip)
                recv_target, res_target, res_alias = getattr(item, tgt), getattr(r, tgt), getattr(r, al)
                same_obj = res_target is res_alias
                delattr(r, al)
                restored = getattr(r, al)
            except Exception as e:
                ctx.violation("alias_protocol", f"Item.{label} (in place: {ip}) on a non-passthrough alias of a collection raised {type(e).__name__}: {e}", features=feats, case=["directed_coll", label, ip])
                continue
            if recv_target != tgt_want or res_target != tgt_want:
                ctx.violation("alias_target_untouched", f"Item.{label} (in place: {ip}): a write to the alias modified its target: {tgt} == {res_target!r}, expected {tgt_want!r}", features=feats, case=["directed_coll", label, ip])
            elif res_alias != al_want or same_obj:
                ctx.violation("alias_view", f"Item.{label} (in place: {ip}): alias reads {res_alias!r} (same object as the target: {same_obj}), expected the local value {al_want!r}", features=feats, case=["directed_coll", label, ip])
            elif restored != tgt_want:
                ctx.violation("alias_view", f"Item.{label} (in place: {ip}) then del: alias reads {restored!r}, expected the live view {tgt_want!r} again", features=feats, case=["directed_coll", label, ip])
    # (3) the fallback stands in for a *missing target* only: a transform that raises AttributeError on a present target is
    #     not answered with the fallback (with and without one the error reaches the caller)
    for has_fallback in (False, True):
        for deprecated in (False, True):
            ctx.count("ops_judged")
            ctx.count("directed_transform_error_cases")
            feats = {"shape": "directed_transform_error", "op": "ra", "fallback": has_fallback, "deprecated": deprecated}
            from spec_classes import DeprecatedAlias
            import warnings

            kw = {"fallback": "n/a"} if has_fallback else {}
            al = (DeprecatedAlias if deprecated else Alias)("owner", transform=lambda o: o.name, passthrough=False, **kw)

            class Host2:
                pass

            Host2.al = al
            al.__set_name__(Host2, "al")
            h = Host2()
            outcomes = []
            with warnings.catch_warnings():
                warnings.simplefilter("ignore")
                for state in ("target_missing", "target_none", "target_named"):
                    if state == "target_none":
                        h.owner = None
                    elif state == "target_named":
                        h.owner = _Named("x")
                    try:
                        outcomes.append(h.al)
                    except AttributeError:
                        outcomes.append("AttributeError")
                    except Exception as e:
                        outcomes.append(type(e).__name__)
            want = ["n/a" if has_fallback else "AttributeError", "AttributeError", "x"]
            if outcomes != want:
                ctx.violation("alias_view", f"{'Deprecated' if deprecated else ''}Alias('owner', transform=lambda o: o.name{', fallback=...' if has_fallback else ''}) read with the target missing / None / named: {outcomes}, expected {want}",
                              features=feats, case=["directed_transform_error", has_fallback, deprecated])
    # (4) several non-passthrough aliases of one target are overridden independently; (5) None is a local value like any other
    def make_plain():
        class PlainHost:
            def __init__(self):
                self.x = 1

        for nm, al in (("y", Alias("x")), ("z", Alias("x", transform=lambda v: v * 10)), ("w", Alias("x", fallback=-1))):
            setattr(PlainHost, nm, al)
            al.__set_name__(PlainHost, nm)
        return PlainHost

    def make_spec():
        return cg_exec(SIBLING_SRC)["SpecHost"]

    for host_kind, make in (("plain", make_plain), ("spec", make_spec)):
        H = make()
        scenarios = [
            ("h.y = 5; read z, w, x", lambda h: (setattr(h, "y", 5), (h.y, h.z, h.w, h.x))[1], (5, 10, 1, 1)),
            ("h.y = 5; del h.z (nothing to delete) leaves y", lambda h: (setattr(h, "y", 5), _try_del(h, "z"), (h.y, h.z))[2], (5, 10)),
            ("h.y = 5; h.z = 7; del h.y", lambda h: (setattr(h, "y", 5), setattr(h, "z", 7), delattr(h, "y"), (h.y, h.z, h.x))[3], (1, 7, 1)),
            ("h.y = None; read y, then x = 3", lambda h: (setattr(h, "y", None), h.y, setattr(h, "x", 3), h.y, h.x)[1::2] + (h.x,), (None, None, 3)),
            ("h.w = None (alias with fallback)", lambda h: (setattr(h, "w", None), h.w)[1], None),
            ("h.y = None; del h.y restores the live view", lambda h: (setattr(h, "y", None), delattr(h, "y"), h.y)[2], 1),
        ]
        if host_kind == "spec":
            scenarios += [
                ("H(y=None).y", lambda h: H(y=None).y, None),
                ("h.with_y(None).y / x", lambda h: (lambda r: (r.y, r.x))(h.with_y(None)), (None, 1)),
                ("h.with_y(5).z / w", lambda h: (lambda r: (r.y, r.z, r.w))(h.with_y(5)), (5, 10, 1)),
                ("deepcopy(h.with_y(None)).y", lambda h: copy.deepcopy(h.with_y(None)).y, None),
            ]
        for label, fn, want in scenarios:
            ctx.count("ops_judged")
            ctx.count("directed_sibling_and_none_cases")
            feats = {"shape": "directed_sibling_none", "op": "wa", "host": host_kind, "none": "None" in label}
            try:
                got = fn(H())
            except Exception as e:
                got = f"{type(e).__name__}: {e}"
            if got != want:
                ctx.violation("alias_view", f"[{host_kind} class; y, z (x10), w (fallback) alias x = 1] {label}: {got!r}, expected {want!r}", features=feats, case=["directed_sibling_none", host_kind, label])
    # (6) a target declared without a default (Attr() / dataclasses.field()) is a *missing* target until it is assigned
    ns3 = cg_exec(NODEFAULT_SRC)
    for cname in ("ByAttr", "ByField", "Bare"):
        ctx.count("ops_judged")
        ctx.count("directed_missing_target_cases")
        feats = {"shape": "directed_missing_target", "op": "ra", "host": "spec", "declared": cname}
        h = ns3[cname]()

        def rd(name):
            try:
                return getattr(h, name)
            except AttributeError:
                return "AttributeError"
            except Exception as e:
                return type(e).__name__

        seen = [(rd("fb"), rd("plain"))]
        h.x = 3
        seen.append((rd("fb"), rd("plain")))
        del h.x
        seen.append((rd("fb"), rd("plain")))
        want = [(7, "AttributeError"), (3, 3), (7, "AttributeError")]
        if [(safe_repr(a, 30), safe_repr(b, 30)) for a, b in seen] != [(safe_repr(a, 30), safe_repr(b, 30)) for a, b in want]:
            ctx.violation("alias_view", f"[{cname}: x declared without a default; fb = Alias('x', fallback=7), plain = Alias('x')] (fb, plain) read before x is set / with x = 3 / after del x: {[(safe_repr(a, 30), safe_repr(b, 30)) for a, b in seen]}, expected {want}",
                          features=feats, case=["directed_missing_target", cname])
    ctx.sig("directed", "paths", "collection_alias", "transform_error", "siblings_none", "missing_target")


SIBLING_SRC = """
from typing import Optional
from spec_classes import spec_class, Alias

@spec_class(bootstrap=True)
class SpecHost:
    x: Optional[int] = 1
    y: Optional[int] = Alias("x")
    z: Optional[int] = Alias("x", transform=lambda v: v * 10)
    w: Optional[int] = Alias("x", fallback=-1)
"""


NODEFAULT_SRC = """
from dataclasses import field
from spec_classes import spec_class, Alias, Attr

@spec_class(bootstrap=True)
class ByAttr:
    x: int = Attr()
    fb: int = Alias("x", fallback=7)
    plain: int = Alias("x")

@spec_class(bootstrap=True)
class ByField:
    x: int = field()
    fb: int = Alias("x", fallback=7)
    plain: int = Alias("x")

@spec_class(bootstrap=True)
class Bare:
    x: int
    fb: int = Alias("x", fallback=7)
    plain: int = Alias("x")
"""


def _try_del(h, name):
    try:
        delattr(h, name)
    except AttributeError:
        pass


class _Named:
    def __init__(self, name):
        self.name = name


def cg_exec(src):
    from vlib import classgen as cg

    return cg.exec_module(src, prefix="verif_c18d").__dict__


def run(ctx, params):
    from spec_classes import Alias

    if params.get("directed"):
        return directed_cases(ctx)
    cfgs = all_configs()[params["part"] :: params["parts"]]
    length = params.get("length")
    # declaration-time rejection of attribute-after-item paths (recorded, not judged)
    try:
        Alias('a["k"].b')
        ctx.notes["attr_after_item_path"] = "accepted"
    except ValueError:
        ctx.notes["attr_after_item_path"] = "rejected with ValueError at declaration (recorded)"
    for ci, cfg in enumerate(cfgs):
        factory, fbobj = make_host(cfg)
        ops = SPEC_OPS if cfg["host"] == "spec" else PLAIN_OPS
        if params["mode"] == "exh":
            seqs = itertools.product(ops, repeat=length)
        else:
            seqs = (tuple(ctx.rng.choice(ops) for _ in range(params["rand_len"])) for _ in range(params["n"]))
        for si, seq in enumerate(seqs):
            case = [cfg_str(cfg), list(seq)]
            if ctx.only_case is not None and ctx.only_case != case:
                continue
            ctx.count("sequences")
            outcomes = run_sequence(ctx, cfg, factory, fbobj, seq, case)
            ctx.sig(cfg_str(cfg), ",".join(seq), ",".join(outcomes))
            if si == 77:
                ctx.sample({"config": cfg_str(cfg), "sequence": list(seq), "model_outcomes": outcomes}, slot=(cfg["shape"], cfg["host"], cfg["passthrough"]))


def plan(tier, seed):
    if tier == "quick":
        return [{"directed": True}] + [{"mode": "exh", "length": 3, "part": i, "parts": 16} for i in range(16)] + [
            {"mode": "rand", "n": 60, "rand_len": 7, "part": i, "parts": 8} for i in range(8)
        ]
    return [{"directed": True}] + [{"mode": "exh", "length": 4, "part": i, "parts": 32} for i in range(32)] + [
        {"mode": "rand", "n": 1500, "rand_len": 8, "part": i, "parts": 16} for i in range(16)
    ]
