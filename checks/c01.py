"""
C01 - copy-on-write helpers never change the receiver (nor the arguments).

Monitor: invariant at a hook. Around every judged helper call (no
_inplace=True) a deep structural + identity snapshot of the receiver and of
the freshly built argument objects is taken (all caches saturated first, so the
comparison is strict) and compared after the call, whether it returned or
raised. Crash points: every user-callback invocation of the call, and executed
library lines (sys.monitoring failpoints), are turned into abort points on a
state rebuilt by deterministic replay of the history.
"""

from __future__ import annotations

from vlib import classgen as cg
from vlib import driver as dr
from vlib import faults
from vlib.core import REPO_ROOT, safe_repr

PROP = "C01"
LEVEL = "exploration"
EVAL_COUNTER = "calls_judged"
RULE = (
    "seeded class definitions from the grammar (vlib/classgen.py) x histories of 0-8 state-building operations x one judged "
    "copy-on-write helper call drawn over the 11 helper kinds x call forms x validity classes (valid, non-conforming value at "
    "one position, missing target, unknown keyword, raising callback, ill-typed nested keyword); plus, for a sample of judged "
    "calls, every (callback, i) fault and executed-library-line failpoints on replayed states; a case is distinct by "
    "(helper kind, call form, validity, outcome, attribute type, class-shape features) and non-trivial because every judged "
    "call attempts a state change"
)
ASSUMPTIONS = [
    "transform functions in the pool are pure; closures of callables passed as arguments are out of scope",
    "line failpoints abort only at statement starts (aborts between bytecodes of one line are not explored)",
    "frozen classes (C07) and classes declared do_not_copy=True are never the judged receiver",
]


def GATES(tier):
    g = [("calls_judged", 200), ("judged_returned", 50), ("judged_raised", 50), ("callback_faults_run", 20), ("line_failpoints_run", 100), ("line_failpoints_surfaced", 50), ("directed_aliasing_cases", 20)]
    for hk in dr.HELPER_KINDS:
        g.append((f"kind:{hk}:returned", 1))
        g.append((f"kind:{hk}:raised", 1))
    return g


def judge(ctx, world, insts, op, step, history, phase, extra=None):
    """Compare pre/post snapshots of receiver and arguments of a judged copy-on-write call."""
    diffs = dr.changed(step)
    recv_cls = dr.class_name(world, step.recv)
    t = cg.BY_NAME.get(op.get("attr") or "", None)
    feats = {
        "hkind": op["hkind"], "form": op.get("form"), "validity": op["validity"], "outcome": step.outcome,
        "phase": phase, "attr_kind": t.kind if t else None, "elem": t.elem if t else None,
        "item_preparer": bool(t and world.decl.item_preparer_of(recv_cls, op["attr"])) if t else False,
        "preparer": bool(t and world.decl.preparer_of(recv_cls, op["attr"])) if t else False,
        "changed": sorted({d.split(":")[0].split(".")[0].split("[")[0] for d in diffs}),
    }
    feats.update(dr.shape_features(world, recv_cls))
    case = None
    if extra:
        extra = dict(extra)
        case = extra.pop("case", None)
        feats.update(extra)
    if diffs:
        who = "argument" if all(d.startswith(("arg", "kw:")) for d in diffs) else "receiver"
        feats["who"] = who
        ctx.violation(
            "cow_receiver_unchanged" if who == "receiver" else "cow_arguments_unchanged",
            f"{dr.op_src(op)} ({step.outcome}{': ' + type(step.exc).__name__ if step.exc else ''}, {phase}) changed the {who}: {diffs[:3]}",
            features=feats,
            case=case,
            history=dr.describe_history(history),
            source=world.source[-1800:],
        )
    return feats


DIRECTED_SRC = """
from typing import Dict, List
from spec_classes import spec_class

@spec_class
class Child:
    x: int = 0
    xs: List[int] = []

@spec_class
class R:
    child: Child
    other: Child
    kids: List[Child] = []
    byname: Dict[str, Child] = {}
"""


def directed_cases(ctx):
    """
    Arguments and callbacks that hand the library objects the receiver already owns (its other nested values, elements
    of its containers), combined with attribute keywords / attribute transforms: whatever the library has to modify, it
    must modify a copy. Receiver states: target attribute missing, and present.
    """
    from vlib.snap import snap

    ns = cg.exec_module(DIRECTED_SRC, prefix="verif_c01d").__dict__
    R, Child = ns["R"], ns["Child"]
    inc = lambda v: v + 1  # noqa: E731

    def receivers():
        yield "child_missing", R(other=Child(x=10, xs=[1]), kids=[Child(x=1), Child(x=2)], byname={"a": Child(x=3)})
        yield "child_present", R(child=Child(x=5), other=Child(x=10, xs=[1]), kids=[Child(x=1), Child(x=2)], byname={"a": Child(x=3)})

    calls = [
        ("transform_child(-> r.other, x=inc)", lambda r: r.transform_child(lambda c: r.other, x=inc)),
        ("transform_child(-> r.kids[0], x=inc)", lambda r: r.transform_child(lambda c: r.kids[0], x=inc)),
        ("transform_child(-> r.byname['a'], xs=append)", lambda r: r.transform_child(lambda c: r.byname["a"], xs=lambda l: l + [9])),
        ("transform_kid(0, -> r.other, x=inc)", lambda r: r.transform_kid(0, lambda k: r.other, x=inc)),
        ("transform_byname_item('a', -> r.kids[1], x=inc)", lambda r: r.transform_byname_item("a", lambda k: r.kids[1], x=inc)),
        ("transform(-> r, child=-> r.other)", lambda r: r.transform(lambda s: s, child=lambda c: r.other)),
        ("with_child(r.other, x=5)", lambda r: r.with_child(r.other, x=5)),
        ("update_child(r.other, x=5)", lambda r: r.update_child(r.other, x=5)),
        ("with_kid(r.other, x=5)", lambda r: r.with_kid(r.other, x=5)),
        ("update_kid(0, r.kids[1], x=5)", lambda r: r.update_kid(0, r.kids[1], x=5)),
        ("with_byname_item('b', r.other, x=5)", lambda r: r.with_byname_item("b", r.other, x=5)),
        ("update(other=r.kids[0]) then nothing", lambda r: r.update(other=r.kids[0])),
        # (storing an object of the receiver in the copy *as given* and then editing the copy in place is the caller's own aliasing: not judged)
        ("with_kids(r.kids).with_kid(...)", lambda r: r.with_kids(r.kids).with_kid(Child(x=7))),
        ("with_other(r.other).update_other(x=6)", lambda r: r.with_other(r.other).update_other(x=6)),
    ]
    for state, _r in receivers():
        for label, fn in calls:
            r = next(x for s_, x in receivers() if s_ == state)
            before = snap({"recv": r})
            ctx.count("calls_judged")
            ctx.count("directed_aliasing_cases")
            try:
                fn(r)
                outcome = "returned"
            except Exception as e:
                outcome = f"raised {type(e).__name__}"
            after = snap({"recv": r})
            ctx.sig("directed", state, label, outcome.split()[0])
            if before != after:
                ctx.violation("cow_receiver_unchanged", f"[directed, {state}] r.{label} ({outcome}) changed the receiver: {before.diff(after, 3)}",
                              features={"phase": "directed", "hkind": label.split("(")[0], "state": state, "outcome": outcome.split()[0], "who": "receiver"}, case=["directed", state, label])


def run(ctx, params):
    if params.get("directed"):
        return directed_cases(ctx)
    rng = ctx.rng
    fp = faults.LineFailpoints(REPO_ROOT)
    n_cases = params["cases"]
    for ci in range(n_cases):
        decl = cg.gen_module(rng, {"frozen": False})
        world = cg.World(decl)
        try:
            history, insts = dr.build_history(world, rng, rng.randint(0, 8))
            receivers = [i for i, x in enumerate(insts) if dr.class_name(world, x) is not None]
            for ji in range(params["judged_per_case"]):
                case = [params.get("shard"), ci, ji]
                if ctx.only_case is not None and ctx.only_case != case:
                    # keep the PRNG stream identical: still draw the op
                    pass
                target = rng.choice(receivers)
                validity = rng.choice(dr.VALIDITIES)
                hkind = rng.choice(dr.HELPER_KINDS)
                op = dr.gen_helper(world, rng, insts, target, hkind=hkind, validity=validity, inplace=False)
                step = dr.execute(world, insts, op, scopes=("recv", "args"))
                ctx.count("calls_judged")
                ctx.count(f"judged_{step.outcome}")
                ctx.count(f"kind:{op['hkind']}:{step.outcome}")
                feats = judge(ctx, world, insts, op, step, history, "plain", {"case": case})
                ctx.sig(op["hkind"], op.get("form"), validity, step.outcome, type(step.exc).__name__ if step.exc else "", feats["attr_kind"], feats["elem"], feats["cls_kind"], feats["lazy"], feats["item_preparer"], feats["preparer"])
                if ci % 40 == 0 and ji == 0:
                    ctx.sample({"class_source_tail": world.source[-600:], "history": dr.describe_history(history), "judged": dr.op_src(op), "outcome": step.outcome, "exception": safe_repr(step.exc, 100) if step.exc else None})
                # ---- crash points -------------------------------------------------
                if rng.random() < params["fault_fraction"]:
                    # (a) every user-callback invocation observed during the unarmed run
                    for name, i in step.probe_log[:12]:
                        insts2 = dr.replay(world, history)
                        world.probe.arm(name, i)
                        st2 = dr.execute(world, insts2, op, scopes=("recv", "args"))
                        fired = world.probe.fired
                        world.probe.reset()
                        ctx.count("callback_faults_run")
                        if not fired:
                            ctx.count("callback_faults_not_reached")
                            continue
                        ctx.count("callback_faults_surfaced" if isinstance(st2.exc, faults.InjectedFault) else "callback_faults_transformed")
                        judge(ctx, world, insts2, op, st2, history, "callback_fault", {"case": case + [name, i], "callback": name.split(":")[0]})
                        ctx.sig("cbfault", op["hkind"], op.get("form"), name.split(":")[0], i, st2.outcome)
                    # (b) executed library lines as abort points
                    insts2 = dr.replay(world, history)
                    st0 = dr.execute(world, insts2, op, scopes=(), failpoints=fp)
                    nlines = fp.count
                    ctx.count("line_events_seen", nlines)
                    budget = params["lines_per_call"]
                    points = range(nlines) if nlines <= budget else sorted(rng.sample(range(nlines), budget))
                    for n in points:
                        insts2 = dr.replay(world, history)
                        st2 = dr.execute(world, insts2, op, scopes=("recv", "args"), failpoints=fp, arm_line=n)
                        ctx.count("line_failpoints_run")
                        if not fp.fired:
                            ctx.count("line_failpoints_not_reached")
                            continue
                        if isinstance(st2.exc, faults.InjectedFault):
                            ctx.count("line_failpoints_surfaced")
                        elif st2.outcome == "raised":
                            ctx.count("line_failpoints_transformed")
                        else:
                            ctx.count("line_failpoints_swallowed")
                        where = fp.fired_at
                        judge(ctx, world, insts2, op, st2, history, "line_failpoint", {"case": case + ["line", n], "fault_at": f"{where[0]}:{where[2]}"})
                        ctx.sig("linefault", op["hkind"], where[0], where[2], st2.outcome)
                dr.register_result(world, insts, step)
                history.append(op)  # later replays must rebuild the instance this call produced
        finally:
            world.close()


def plan(tier, seed):
    if tier == "quick":
        return [{"directed": True}] + [{"shard": i, "cases": 45, "judged_per_case": 6, "fault_fraction": 0.12, "lines_per_call": 60} for i in range(16)]
    return [{"directed": True}] + [{"shard": i, "cases": 500, "judged_per_case": 8, "fault_fraction": 0.15, "lines_per_call": 400} for i in range(32)]
