"""
C01 - copy-on-write helpers never change the receiver (nor the arguments).

Monitor: invariant at a hook. Around every judged helper call (no
_inplace=True) a deep structural + identity snapshot of the receiver and of
the freshly built argument objects is taken (all caches saturated first, so the
comparison is strict) and compared after the call, whether it returned or
raised. Crash points: every user-callback invocation of the call, and executed
library lines (sys.monitoring failpoints), are turned into abort points on a
state rebuilt by deterministic replay of the history.
"""

from __future__ import annotations

from vlib import classgen as cg
from vlib import driver as dr
from vlib import faults
from vlib.core import REPO_ROOT, safe_repr

PROP = "C01"
LEVEL = "exploration"
EVAL_COUNTER = "calls_judged"
RULE = (
    "seeded class definitions from the grammar (vlib/classgen.py) x histories of 0-8 state-building operations x one judged "
    "copy-on-write helper call drawn over the 11 helper kinds x call forms x validity classes (valid, non-conforming value at "
    "one position, missing target, unknown keyword, raising callback, ill-typed nested keyword); plus, for a sample of judged "
    "calls, every (callback, i) fault and executed-library-line failpoints on replayed states; a case is distinct by "
    "(helper kind, call form, validity, outcome, attribute type, class-shape features) and non-trivial because every judged "
    "call attempts a state change"
)
ASSUMPTIONS = [
    "transform functions in the pool are pure; closures of callables passed as arguments are out of scope",
    "line failpoints abort only at statement starts (aborts between bytecodes of one line are not explored)",
    "frozen classes (C07) and classes declared do_not_copy=True are never the judged receiver",
]


def GATES(tier):
    g = [("calls_judged", 200), ("judged_returned", 50), ("judged_raised", 50), ("callback_faults_run", 20), ("line_failpoints_run", 100), ("line_failpoints_surfaced", 50)]
    for hk in dr.HELPER_KINDS:
        g.append((f"kind:{hk}:returned", 1))
        g.append((f"kind:{hk}:raised", 1))
    return g


def judge(ctx, world, insts, op, step, history, phase, extra=None):
    """Compare pre/post snapshots of receiver and arguments of a judged copy-on-write call."""
    diffs = dr.changed(step)
    recv_cls = dr.class_name(world, step.recv)
    t = cg.BY_NAME.get(op.get("attr") or "", None)
    feats = {
        "hkind": op["hkind"], "form": op.get("form"), "validity": op["validity"], "outcome": step.outcome,
        "phase": phase, "attr_kind": t.kind if t else None, "elem": t.elem if t else None,
        "item_preparer": bool(t and world.decl.item_preparer_of(recv_cls, op["attr"])) if t else False,
        "preparer": bool(t and world.decl.preparer_of(recv_cls, op["attr"])) if t else False,
        "changed": sorted({d.split(":")[0].split(".")[0].split("[")[0] for d in diffs}),
    }
    feats.update(dr.shape_features(world, recv_cls))
    case = None
    if extra:
        extra = dict(extra)
        case = extra.pop("case", None)
        feats.update(extra)
    if diffs:
        who = "argument" if all(d.startswith(("arg", "kw:")) for d in diffs) else "receiver"
        feats["who"] = who
        ctx.violation(
            "cow_receiver_unchanged" if who == "receiver" else "cow_arguments_unchanged",
            f"{dr.op_src(op)} ({step.outcome}{': ' + type(step.exc).__name__ if step.exc else ''}, {phase}) changed the {who}: {diffs[:3]}",
            features=feats,
            case=case,
            history=dr.describe_history(history),
            source=world.source[-1800:],
        )
    return feats


def run(ctx, params):
    rng = ctx.rng
    fp = faults.LineFailpoints(REPO_ROOT)
    n_cases = params["cases"]
    for ci in range(n_cases):
        decl = cg.gen_module(rng, {"frozen": False})
        world = cg.World(decl)
        try:
            history, insts = dr.build_history(world, rng, rng.randint(0, 8))
            receivers = [i for i, x in enumerate(insts) if dr.class_name(world, x) is not None]
            for ji in range(params["judged_per_case"]):
                case = [params.get("shard"), ci, ji]
                if ctx.only_case is not None and ctx.only_case != case:
                    # keep the PRNG stream identical: still draw the op
                    pass
                target = rng.choice(receivers)
                validity = rng.choice(dr.VALIDITIES)
                hkind = rng.choice(dr.HELPER_KINDS)
                op = dr.gen_helper(world, rng, insts, target, hkind=hkind, validity=validity, inplace=False)
                step = dr.execute(world, insts, op, scopes=("recv", "args"))
                ctx.count("calls_judged")
                ctx.count(f"judged_{step.outcome}")
                ctx.count(f"kind:{op['hkind']}:{step.outcome}")
                feats = judge(ctx, world, insts, op, step, history, "plain", {"case": case})
                ctx.sig(op["hkind"], op.get("form"), validity, step.outcome, type(step.exc).__name__ if step.exc else "", feats["attr_kind"], feats["elem"], feats["cls_kind"], feats["lazy"], feats["item_preparer"], feats["preparer"])
                if ci % 40 == 0 and ji == 0:
                    ctx.sample({"class_source_tail": world.source[-600:], "history": dr.describe_history(history), "judged": dr.op_src(op), "outcome": step.outcome, "exception": safe_repr(step.exc, 100) if step.exc else None})
                # ---- crash points -------------------------------------------------
                if rng.random() < params["fault_fraction"]:
                    # (a) every user-callback invocation observed during the unarmed run
                    for name, i in step.probe_log[:12]:
                        insts2 = dr.replay(world, history)
                        world.probe.arm(name, i)
                        st2 = dr.execute(world, insts2, op, scopes=("recv", "args"))
                        fired = world.probe.fired
                        world.probe.reset()
                        ctx.count("callback_faults_run")
                        if not fired:
                            ctx.count("callback_faults_not_reached")
                            continue
                        ctx.count("callback_faults_surfaced" if isinstance(st2.exc, faults.InjectedFault) else "callback_faults_transformed")
                        judge(ctx, world, insts2, op, st2, history, "callback_fault", {"case": case + [name, i], "callback": name.split(":")[0]})
                        ctx.sig("cbfault", op["hkind"], op.get("form"), name.split(":")[0], i, st2.outcome)
                    # (b) executed library lines as abort points
                    insts2 = dr.replay(world, history)
                    st0 = dr.execute(world, insts2, op, scopes=(), failpoints=fp)
                    nlines = fp.count
                    ctx.count("line_events_seen", nlines)
                    budget = params["lines_per_call"]
                    points = range(nlines) if nlines <= budget else sorted(rng.sample(range(nlines), budget))
                    for n in points:
                        insts2 = dr.replay(world, history)
                        st2 = dr.execute(world, insts2, op, scopes=("recv", "args"), failpoints=fp, arm_line=n)
                        ctx.count("line_failpoints_run")
                        if not fp.fired:
                            ctx.count("line_failpoints_not_reached")
                            continue
                        if isinstance(st2.exc, faults.InjectedFault):
                            ctx.count("line_failpoints_surfaced")
                        elif st2.outcome == "raised":
                            ctx.count("line_failpoints_transformed")
                        else:
                            ctx.count("line_failpoints_swallowed")
                        where = fp.fired_at
                        judge(ctx, world, insts2, op, st2, history, "line_failpoint", {"case": case + ["line", n], "fault_at": f"{where[0]}:{where[2]}"})
                        ctx.sig("linefault", op["hkind"], where[0], where[2], st2.outcome)
                dr.register_result(world, insts, step)
                history.append(op)  # later replays must rebuild the instance this call produced
        finally:
            world.close()


def plan(tier, seed):
    if tier == "quick":
        return [{"shard": i, "cases": 45, "judged_per_case": 6, "fault_fraction": 0.12, "lines_per_call": 60} for i in range(16)]
    return [{"shard": i, "cases": 700, "judged_per_case": 8, "fault_fraction": 0.15, "lines_per_call": 400} for i in range(32)]
