"""
C14 - KeyedSet is a set of items identified by key.

Monitor: history + executable reference model (dict key -> most recently added
item). After every operation the full public view (len, items, keys(), `in` /
[] / get for every item and key of the universe) is compared with the model;
set algebra results are checked on keys and must themselves still answer by key
(key function and equivalence flag preserved).
"""

from __future__ import annotations

import itertools

from vlib.core import safe_repr

PROP = "C14"
LEVEL = "exploration"
EVAL_COUNTER = "ops_judged"
GATES = ["ops_judged", "views_compared", "binary_results_checked", "equivalence_rejections", "type_rejections", "by_key_ops", "by_item_ops", "constructions_judged", "construction_rejections_expected"]
RULE = (
    "operation sequences over KeyedSets built from universes of k keys x p payloads (self-keyed strings, tuples and "
    "unhashable lists with key function it[0], keyed spec items, typed KeyedSet[T,K]) under both settings of "
    "enforce_item_equivalence; exhaustive over all start sets and all operations/operands up to the tier's sequence "
    "length, seeded-random sequences beyond; binary operators against KeyedSet and built-in set operands; a case is "
    "distinct by (universe, flag, start size, operation, operand class, outcome class)"
)
ASSUMPTIONS = [
    "reference model: dict key -> most recently added item; set algebra on keys; for common keys either operand's item is accepted",
    "not judged (UNSPECIFIED): built-in set operands holding a different payload under a key of the KeyedSet for -,&,<=,==; "
    "== between KeyedSets with equal keys but unequal payloads; s[item] with the flag on and an unequal item; "
    "which exception a missing lookup raises; typed-ness of results",
]
EXHAUSTIVE = {"quick": False, "thorough": False}


class Universe:
    def __init__(self, name, flag):
        from spec_classes import spec_class
        from spec_classes.types import KeyedSet

        self.name = name
        self.flag = flag
        self.KeyedSet = KeyedSet
        self.keyfn = None
        self.typed = None
        self.bad = []
        self.hashable_items = True
        self.self_keyed = False
        if name == "selfstr":
            self.specs = ["a", "b", ""]
            self.make = lambda s: s
            self.kf = lambda it: it
            self.self_keyed = True
        elif name == "modint":
            # ints keyed by value % 3: contains falsy items (0) and items that are also keys of other items
            self.specs = [(k, p) for k in (0, 1, 2) for p in (0, 1)]
            self.make = lambda s: s[0] + 3 * s[1]
            self.kf = lambda it: it % 3
            self.keyfn = lambda it: it % 3
        elif name in ("tuple", "typed_tuple"):
            self.specs = [(k, p) for k in "abc" for p in (0, 1)]
            self.make = lambda s: (s[0], s[1])
            self.kf = lambda it: it[0]
            self.keyfn = lambda it: it[0]
            if name == "typed_tuple":
                self.typed = (tuple, str)
                # (the last one has the key of a legitimate item: it may arrive as a *replacement* under an existing key)
                self.bad = [("wrong_key_type", lambda: (5, 0)), ("wrong_item_type", lambda: ["q", 0]), ("wrong_item_type_existing_key", lambda: ["a", 0])]
        elif name == "objattr":
            # plain objects keyed by a function that reads an attribute: handed a bare key it raises AttributeError

            class Obj:
                def __init__(self, name, p):
                    self.name, self.p = name, p

                def __eq__(self, other):
                    return isinstance(other, Obj) and (self.name, self.p) == (other.name, other.p)

                __hash__ = None

                def __repr__(self):
                    return f"Obj({self.name!r}, {self.p})"

            self.specs = [(k, p) for k in "abc" for p in (0, 1)]
            self.make = lambda s: Obj(s[0], s[1])
            self.kf = lambda it: it.name
            self.keyfn = lambda it: it.name
            self.hashable_items = False
        elif name == "listitems":
            self.specs = [(k, p) for k in "abc" for p in (0, 1)]
            self.make = lambda s: [s[0], s[1]]
            self.kf = lambda it: it[0]
            self.keyfn = lambda it: it[0]
            self.hashable_items = False
        elif name in ("spec", "typed_spec"):

            @spec_class(key="k", bootstrap=True)
            class KLeaf:
                k: str
                v: int = 0

            @spec_class(key="k", bootstrap=True)
            class IntLeaf:
                k: int
                v: int = 0

            self.specs = [(k, p) for k in "abc" for p in (0, 1)]
            self.make = lambda s: KLeaf(s[0], v=s[1])
            self.kf = lambda it: it.k
            if name == "typed_spec":
                self.typed = (KLeaf, str)

                @spec_class(key="k", bootstrap=True)
                class OtherLeaf:  # same shape and key type as KLeaf, but not a KLeaf
                    k: str
                    v: int = 0

                self.bad = [("wrong_item_type", lambda: "plainstr"), ("wrong_item_type2", lambda: IntLeaf(4)), ("wrong_item_type_existing_key", lambda: OtherLeaf("a"))]
        else:
            raise ValueError(name)
        self.absent_key = "zz"
        self.keys = []
        for s in self.specs:
            k = self.kf(self.make(s))
            if k not in self.keys:
                self.keys.append(k)
        # absent probes: an ordinary one and a falsy one (which a key function that indexes its argument cannot key)
        self.absent_keys = [k for k in ("zz", "") if k not in self.keys]

    def new_set(self, items, flag=None):
        cls = self.KeyedSet[self.typed] if self.typed else self.KeyedSet
        flag = self.flag if flag is None else flag
        return cls(list(items), key=self.keyfn, enforce_item_equivalence=flag)


UNIVERSES = ["selfstr", "tuple", "listitems", "spec", "typed_tuple", "typed_spec", "modint", "objattr"]


class Raise(Exception):
    def __init__(self, family):
        self.family = family


FAMILIES = {"value": (ValueError,), "type": (TypeError,), "type_or_value": (TypeError, ValueError), "key": (KeyError,), "any": (Exception,)}
UNSPEC = object()


def same(a, b):
    return a is b or a == b


# -- model ------------------------------------------------------------------


def m_resolve(U, M, x):
    """Key of the stored item that `x` addresses (documented order: x as a key first, then x as an item), or None."""
    try:
        if x in M:
            return x
    except TypeError:
        pass
    try:
        k = U.kf(x)
    except Exception:
        return None
    try:
        if k in M and ((not U.flag) or same(M[k], x)):
            return k
    except TypeError:
        return None
    return None


def m_contains(U, M, x, is_key=False):
    return m_resolve(U, M, x) is not None


def m_add(U, M, x, badfam):
    if badfam:
        try:
            k = U.kf(x)
        except Exception:
            k = None
        if U.flag and k is not None and k in M:
            raise Raise("type_or_value")  # wrong type *and* unequal to the item stored under its key: either rejection will do
        raise Raise("type")
    k = U.kf(x)
    if U.flag and k in M and not same(M[k], x):
        raise Raise("value")
    M[k] = x


def _set_operand_agrees(M, O, items):
    """For a built-in set operand, do membership-by-item and membership-by-key coincide on the common keys?"""
    try:
        other = set(items)
    except TypeError:
        return False
    return all(M[k] in other for k in O if k in M)


def model_apply(U, M, name, args):
    if name == "add":
        (x, badfam) = args[0]
        m_add(U, M, x, badfam)
        return None
    if name in ("discard", "remove"):
        kind, x = args[0]
        k = m_resolve(U, M, x)
        if k is None:
            if name == "remove":
                raise Raise("key")
            return None
        del M[k]
        return None
    if name == "pop":
        if not M:
            raise Raise("key")
        return ("popped",)
    if name == "clear":
        M.clear()
        return None
    if name in ("ior", "iand", "isub", "ixor", "or", "and", "sub", "xor"):
        okind, items = args[0]
        O = {}
        for it in items:
            O[U.kf(it)] = UNSPEC if okind == "keys" else it  # (a built-in set of bare keys selects by key and brings no items)
        base = name.lstrip("i") if name.startswith("i") and name != "iand" else name
        base = {"ior": "or", "iand": "and", "isub": "sub", "ixor": "xor"}.get(name, name)
        conflict = [k for k in O if k in M and O[k] is not UNSPEC and not same(M[k], O[k])]
        if okind in ("set", "fset") and base == "and" and not _set_operand_agrees(M, O, items):
            return UNSPEC  # built-in set membership is by item (hash/eq), not by key: both readings are defensible
        # (`-` and `^` are `-=` / `^=` on a copy: by key, whatever kind of set the other operand is)
        if U.flag and conflict:
            return UNSPEC  # flag + unequal payload under a common key
        if base == "or":
            keys = list(M) + [k for k in O if k not in M]
        elif base == "and":
            keys = [k for k in M if k in O]
        elif base == "sub":
            keys = [k for k in M if k not in O]
        else:
            keys = [k for k in M if k not in O] + [k for k in O if k not in M]
        allowed = {k: [v for v in (M.get(k, UNSPEC), O.get(k, UNSPEC)) if v is not UNSPEC] for k in keys}
        if name.startswith("i") and name in ("ior", "iand", "isub", "ixor"):
            return ("inplace", keys, allowed)
        return ("derived", keys, allowed)
    if name in ("le", "ge", "eq", "isdisjoint"):
        okind, items = args[0]
        O = {}
        for it in items:
            O[U.kf(it)] = it
        conflict = [k for k in O if k in M and O[k] is not UNSPEC and not same(M[k], O[k])]
        if conflict or (okind in ("set", "fset") and not _set_operand_agrees(M, O, items)):
            return UNSPEC
        if name == "le":
            return ("bool", set(M) <= set(O))
        if name == "ge":
            return ("bool", set(M) >= set(O))
        if name == "eq":
            return ("bool", set(M) == set(O))
        return ("bool", not (set(M) & set(O)))
    raise ValueError(name)


def real_apply(U, s, name, args):
    if name == "add":
        s.add(args[0][0])
    elif name == "discard":
        s.discard(args[0][1])
    elif name == "remove":
        s.remove(args[0][1])
    elif name == "pop":
        return ("popped", s.pop())
    elif name == "clear":
        s.clear()
    else:
        okind, items = args[0]
        other = U.new_set(items, flag=False) if okind == "kset" else (frozenset(items) if okind == "fset" else ({U.kf(it) for it in items} if okind == "keys" else set(items)))
        if name == "ior":
            s2 = s
            s2 |= other
            return ("inplace", s2)
        if name == "iand":
            s2 = s
            s2 &= other
            return ("inplace", s2)
        if name == "isub":
            s2 = s
            s2 -= other
            return ("inplace", s2)
        if name == "ixor":
            s2 = s
            s2 ^= other
            return ("inplace", s2)
        if name == "or":
            return ("derived", s | other)
        if name == "and":
            return ("derived", s & other)
        if name == "sub":
            return ("derived", s - other)
        if name == "xor":
            return ("derived", s ^ other)
        if name == "le":
            return ("bool", s <= other)
        if name == "ge":
            return ("bool", s >= other)
        if name == "eq":
            return ("bool", s == other)
        if name == "isdisjoint":
            return ("bool", s.isdisjoint(other))
        raise ValueError(name)
    return None


# -- views ------------------------------------------------------------------


def obs(fn):
    try:
        return ("ok", fn())
    except BaseException as e:  # noqa
        return ("exc", type(e))


def _hashable(x):
    try:
        hash(x)
        return True
    except TypeError:
        return False


def _fmt(o):
    if o[0] == "exc":
        return f"raises {o[1].__name__ if isinstance(o[1], type) else o[1]}"
    return safe_repr(o[1], 80)


def compare_view(U, s, M, probes):
    bad = []

    def chk(name, real, model, ident=False):
        if model[0] == "exc":
            ok = real[0] == "exc" and issubclass(real[1], Exception)
        elif real[0] != "ok":
            ok = False
        else:
            ok = (real[1] is model[1]) if ident else (real[1] == model[1])
        if not ok:
            bad.append((name, _fmt(real), _fmt(model)))

    chk("len(s)", obs(lambda: len(s)), ("ok", len(M)))
    chk("sorted ids(iter(s))", obs(lambda: sorted(id(x) for x in s)), ("ok", sorted(id(x) for x in M.values())))
    chk("set(s.keys())", obs(lambda: set(s.keys())), ("ok", set(M)))
    chk("items()", obs(lambda: {k: id(v) for k, v in s.items()}), ("ok", {k: id(v) for k, v in M.items()}))
    for k in probes["keys"]:
        chk(f"{k!r} in s", obs(lambda: k in s), ("ok", k in M))
        chk(f"s[{k!r}]", obs(lambda: s[k]), ("ok", M[k]) if k in M else ("exc", "key"), True)  # (also where the key function cannot key the probe)
        chk(f"get({k!r})", obs(lambda: s.get(k)), ("ok", M.get(k)), True)
    if not U.self_keyed:
        for it in probes["items"]:
            k = U.kf(it)
            chk(f"{safe_repr(it, 30)} in s", obs(lambda: it in s), ("ok", m_contains(U, M, it)))
            as_key = _hashable(it) and it in M
            if as_key:
                chk(f"s[{safe_repr(it, 30)}] (is a key)", obs(lambda: s[it]), ("ok", M[it]), True)
            elif k not in M:
                chk(f"s[{safe_repr(it, 30)}]", obs(lambda: s[it]), ("exc", "any"))
            elif not U.flag or same(M[k], it):
                chk(f"s[{safe_repr(it, 30)}]", obs(lambda: s[it]), ("ok", M[k]), True)
    try:
        internal = {k: id(v) for k, v in s._dict.items()}
        if internal != {U.kf(v): id(v) for v in s._dict.values()}:
            bad.append(("internal _dict keyed consistently", str(internal), "key(item) for every stored item"))
    except AttributeError:
        pass
    return bad


def check_result_set(U, d, keys, allowed):
    """Result of set algebra: KeyedSet over the expected keys that still answers by key with the same settings."""
    bad = []
    if not isinstance(d, U.KeyedSet):
        return [("type(result)", type(d).__name__, "KeyedSet")]
    r = obs(lambda: set(d.keys()))
    if r != ("ok", set(keys)):
        bad.append(("set(result.keys())", _fmt(r), str(set(keys))))
        return bad
    r = obs(lambda: len(d))
    if r != ("ok", len(keys)):
        bad.append(("len(result)", _fmt(r), str(len(keys))))
    for k in keys:
        r = obs(lambda: d[k])
        if r[0] != "ok" or not any(r[1] is a for a in allowed[k]):
            bad.append((f"result[{k!r}]", _fmt(r), "item of an operand under that key"))
        r = obs(lambda: k in d)
        if r != ("ok", True):
            bad.append((f"{k!r} in result", _fmt(r), "True"))
    if bad:
        return bad
    # still keyed by the same key function / same equivalence setting?
    if keys and not U.self_keyed:
        k0 = keys[0]
        stored = d[k0]
        other = None
        for sp in U.specs:
            c = U.make(sp)
            if U.kf(c) == k0 and not same(c, stored) and not (_hashable(c) and c in keys):
                other = c  # same key, other payload, and not itself a key of the result (key lookup goes first)
                break
        if other is not None:
            r = obs(lambda: other in d)
            exp = not U.flag
            if r != ("ok", exp):
                bad.append(("(same key, other payload) in result", _fmt(r), str(exp)))
            n = len(d)
            r = obs(lambda: d.add(other))
            if U.flag:
                if not (r[0] == "exc" and issubclass(r[1], ValueError)):
                    bad.append(("result.add(unequal item under existing key) with flag", _fmt(r), "ValueError"))
            else:
                if r[0] != "ok" or len(d) != n:
                    bad.append(("len(result) after add(same key, other payload)", f"{_fmt(r)}, len {len(d)}", f"len {n}"))
    return bad


# -- op enumeration -----------------------------------------------------------


def operand_choices(U):
    """(operand kind, tuple of spec indices) for binary operators."""
    idx = range(len(U.specs))
    combos = [()] + [(i,) for i in idx]
    for a, b in itertools.combinations(idx, 2):
        if U.kf(U.make(U.specs[a])) != U.kf(U.make(U.specs[b])):
            combos.append((a, b))
    out = [("kset", c) for c in combos]
    if U.hashable_items:
        out += [("set", c) for c in combos]
    else:
        out.append(("set", ()))  # the empty built-in set is a legitimate operand whatever the items are
    return out


BINOPS = ["ior", "iand", "isub", "ixor", "or", "and", "sub", "xor", "le", "ge", "eq", "isdisjoint"]


def all_ops(U, operand_limit=None, rng=None):
    ops = []
    for i in range(len(U.specs)):
        ops.append(("add", (("spec", i),)))
        ops.append(("discard", (("item", i),)))
        ops.append(("remove", (("item", i),)))
    for j in range(len(U.bad)):
        ops.append(("add", (("bad", j),)))
    for k in list(U.keys) + U.absent_keys:
        ops.append(("discard", (("key", k),)))
        ops.append(("remove", (("key", k),)))
    ops += [("pop", ()), ("clear", ())]
    operands = operand_choices(U)
    if operand_limit is not None and len(operands) > operand_limit:
        operands = rng.sample(operands, operand_limit)
    for name in BINOPS:
        for o in operands:
            ops.append((name, (("operand",) + o,)))
    # built-in sets of bare *keys* select by key (operators that only take away; what a bare key would add is not an item),
    # and frozensets of items compare like sets
    key_operands = [c for kind, c in operands if kind == "kset" and c]
    for name in ("and", "iand", "sub", "isub", "isdisjoint"):
        for c in key_operands:
            ops.append((name, (("operand", "keys", c),)))
    if U.hashable_items:
        for name in ("eq", "le", "ge", "sub", "and"):
            for c in [c for kind, c in operands if kind == "set"]:
                ops.append((name, (("operand", "fset", c),)))
    return ops


def bind(U, op):
    name, args = op
    if not args:
        return name, ()
    a = args[0]
    if a[0] == "spec":
        return name, ((U.make(U.specs[a[1]]), None),)
    if a[0] == "bad":
        return name, ((U.bad[a[1]][1](), "type"),)
    if a[0] == "item":
        return name, (("item", U.make(U.specs[a[1]])),)
    if a[0] == "key":
        return name, (("key", a[1]),)
    if a[0] == "operand":
        return name, ((a[1], [U.make(U.specs[i]) for i in a[2]]),)
    raise ValueError(op)


def arg_class(U, op):
    name, args = op
    if not args:
        return ""
    a = args[0]
    if a[0] == "operand":
        return f"{a[1]}{len(a[2])}"
    if a[0] == "key":
        return "absent_key" if a[1] in U.absent_keys else "key"
    return a[0]


def start_sets(U):
    out = [()]
    idx = range(len(U.specs))
    for n in range(1, len(U.keys) + 1):
        for combo in itertools.permutations(idx, n):
            ks = [U.kf(U.make(U.specs[i])) for i in combo]
            if len(set(ks)) == n and list(ks) == sorted(ks):
                out.append(combo)
    return out


def judged_step(ctx, U, s, M, op, probes, case):
    name, args = bind(U, op)
    before = dict(M)
    try:
        mres = model_apply(U, M, name, args)
        mexc = None
    except Raise as r:
        mres, mexc = None, r.family
        M.clear()
        M.update(before)
    try:
        rres = ("ok", real_apply(U, s, name, args))
    except BaseException as e:  # noqa
        rres = ("exc", type(e), e)
    acls = arg_class(U, op)
    feats = {"universe": U.name, "flag": U.flag, "op": name, "args": acls}
    what_ctx = f"{U.name}/flag={U.flag}: {name}({safe_repr(op[1], 70)}) on {safe_repr(list(before.values()), 70)}"

    def report(monitor, what, **kw):
        ctx.violation(monitor, f"{what_ctx}: {what}", features=dict(feats, **kw), case=case)

    if mres is UNSPEC:
        ctx.count("unspecified_skipped")
        # nothing is judged about this step except that later steps start from the real state
        _resync(U, s, M)
        return s
    ctx.count("ops_judged")
    outcome = mexc or (mres[0] if mres else "ok")
    ctx.sig(U.name, U.flag, len(before), name, acls, outcome)
    if op[1] and op[1][0][0] == "key":
        ctx.count("by_key_ops")
    if op[1] and op[1][0][0] == "item":
        ctx.count("by_item_ops")
    if mexc == "value":
        ctx.count("equivalence_rejections")
    if mexc == "type":
        ctx.count("type_rejections")
    if mexc:
        if rres[0] != "exc":
            report("raise_expected", f"should raise {mexc} but returned", expected=mexc)
        elif not issubclass(rres[1], FAMILIES[mexc]):
            report("raise_family", f"raised {rres[1].__name__}, expected {mexc}", expected=mexc, got=rres[1].__name__)
    elif rres[0] == "exc":
        report("unexpected_raise", f"raised {rres[1].__name__}: {rres[2]}", got=rres[1].__name__)
        M.clear()
        M.update(before)
    else:
        rv = rres[1]
        if mres is not None and mres[0] == "popped":
            item = rv[1]
            hit = [k for k, v in M.items() if v is item]
            if not hit:
                report("pop_result", f"pop() returned {safe_repr(item, 40)} which is not a stored item")
            else:
                del M[hit[0]]
        elif mres is not None and mres[0] == "bool":
            if rv[1] is not mres[1]:
                report("comparison", f"returned {rv[1]!r}, key algebra says {mres[1]}")
        elif mres is not None and mres[0] in ("derived", "inplace"):
            _, keys, allowed = mres
            ctx.count("binary_results_checked")
            d = rv[1]
            if mres[0] == "inplace" and d is not s:
                report("inplace_identity", "augmented assignment rebound the set to a new object")
            mism = check_result_set(U, d, keys, allowed)
            for obsname, r_, m_ in mism[:1]:
                report("binary_result", f"{obsname} = {r_}, expected {m_}", observation=obsname.split("(")[0].split("[")[0])
            if mres[0] == "inplace":
                # adopt the real choice among allowed items for common keys
                newM = {}
                for k in keys:
                    try:
                        newM[k] = d[k]
                    except Exception:
                        newM[k] = allowed[k][-1]
                M.clear()
                M.update(newM)
                s = d
    mism = compare_view(U, s, M, probes)
    ctx.count("views_compared")
    if mism:
        obsname, r_, m_ = mism[0]
        report(
            "view_after_raise" if (mexc or rres[0] == "exc") else "view_vs_model",
            f"then {obsname} = {r_}, model {m_} (+{len(mism) - 1} more)",
            observation=obsname.split("(")[0].split("[")[0].strip(),
            after_raise=bool(mexc or rres[0] == "exc"),
        )
        _resync(U, s, M)
    return s


def _resync(U, s, M):
    M.clear()
    try:
        for v in list(s._dict.values()):
            M[U.kf(v)] = v
    except Exception:
        pass


def judge_constructions(ctx, U, probes):
    """
    Building a set from a sequence adds the items one after the other: every sequence of <= 3 items of the universe
    (repetitions and same-key conflicts included, wrong-typed items for typed sets) through the constructor.
    """
    idx = list(range(len(U.specs)))
    seqs = [()] + [(i,) for i in idx] + list(itertools.product(idx, repeat=2)) + [c for c in itertools.product(idx, repeat=3) if len({U.kf(U.make(U.specs[i])) for i in c}) < 3]
    cases = [("specs", c, None) for c in seqs]
    for j, (_tag, mk) in enumerate(U.bad):
        cases += [("bad_first", (j,), None), ("bad_after_same_key", (j,), None)]
    for kind, c, _ in cases:
        case = [U.name, U.flag, "construct", kind, list(c)]
        if kind == "specs":
            items = [U.make(U.specs[i]) for i in c]
            badfam = False
        else:
            bad = U.bad[c[0]][1]()
            items = [bad] if kind == "bad_first" else [U.make(U.specs[0]), bad]
            badfam = True
        M, expect = {}, None
        try:
            for x in items:
                m_add(U, M, x, badfam and x is items[-1])
        except Raise as r:
            expect = r.family
        ctx.count("constructions_judged")
        feats = {"universe": U.name, "flag": U.flag, "op": "construct", "arg": kind, "expect": expect or "ok", "n": len(items)}
        from spec_classes.errors import BaseTypeError  # what a typed container's constructor raises on Python >= 3.11

        try:
            s = U.new_set(items)
            got = None
        except (Exception, BaseTypeError) as e:  # noqa
            s, got = None, e
        label = f"{U.name}/flag={U.flag}: {'KeyedSet[...]' if U.typed else 'KeyedSet'}({safe_repr(items, 80)})"
        if expect is not None:
            ctx.count("construction_rejections_expected")
            want = {"value": (ValueError,), "type": (TypeError, BaseTypeError), "type_or_value": (TypeError, BaseTypeError, ValueError)}[expect]
            wname = {"value": "ValueError", "type": "TypeError", "type_or_value": "TypeError or ValueError"}[expect]
            if got is None:
                ctx.violation("raise_expected", f"{label} should raise {wname} ({'unequal items under one key with enforce_item_equivalence' if expect == 'value' else 'item or key of the wrong type'}) but built {safe_repr(list(s), 80)}", features=feats, case=case)
            elif not isinstance(got, want):
                ctx.violation("raise_expected", f"{label} raised {type(got).__name__}: {got}; expected {wname}", features=feats, case=case)
            continue
        if got is not None:
            ctx.violation("unexpected_raise", f"{label} raised {type(got).__name__}: {safe_repr(got, 100)}", features=feats, case=case)
            continue
        compare_view_ok = list(s._dict.keys()) if hasattr(s, "_dict") else None
        real = {U.kf(v): v for v in s}
        if set(real) != set(M) or any(not same(real[k], M[k]) for k in M) or len(s) != len(M):
            ctx.violation("view_vs_model", f"{label} holds {safe_repr(list(s), 80)}; one item per key, the most recently added one, is {safe_repr(list(M.values()), 80)}", features=feats, case=case)
        ctx.sig("construct", U.name, U.flag, kind, len(items), len(M))


def directed_comparison_totality(ctx):
    """<=, <, >=, >, ==, != between a KeyedSet and a built-in set / frozenset give an answer (a bool) whatever the operand
    holds - in particular for KeyedSets of *unhashable* items, which a built-in set cannot contain, against built-in sets of
    bare keys of every size around len(s). Only totality is judged here: which answer a set of bare keys gets is UNSPECIFIED."""
    import operator

    from spec_classes.types import KeyedSet

    for label, items in (("unhashable lists", [[1, "a"], [2, "b"]]), ("tuples", [(1, "a"), (2, "b")])):
        for flag in (False, True):
            for n in (0, 1, 2):
                ks = KeyedSet(items[:n], key=lambda it: it[0], enforce_item_equivalence=flag)
                for other in (set(), {1}, {1, 2}, {1, 2, 3}, frozenset({1, 2, 3}), {7, 8, 9}, frozenset()):
                    for op in (operator.le, operator.lt, operator.ge, operator.gt, operator.eq, operator.ne):
                        ctx.count("ops_judged")
                        ctx.count("comparison_totality_cases")
                        try:
                            r = op(ks, other)
                            bad = None if isinstance(r, bool) else f"returned {r!r}"
                        except Exception as e:
                            bad = f"raised {type(e).__name__}: {e}"
                        if bad:
                            ctx.violation("comparison_total", f"[directed] KeyedSet of {n} {label} (key = it[0], enforce_item_equivalence={flag}) {op.__name__} {other!r}: {bad}; a comparison with a built-in set must answer True or False",
                                          features={"op": op.__name__, "items": label, "flag": flag, "n": n, "operand": type(other).__name__}, case=["cmp_total", label, flag, n, op.__name__, sorted(other)])
    ctx.sig("directed", "comparison_totality")


def run(ctx, params):
    if params.get("mode") == "directed":
        return directed_comparison_totality(ctx)
    U = Universe(params["universe"], params["flag"])
    rng = ctx.rng
    probes = {"keys": list(U.keys) + U.absent_keys, "items": [U.make(s) for s in U.specs]}
    if params["mode"] == "exh" and params.get("part", 0) == 0:
        judge_constructions(ctx, U, probes)
    if params["mode"] == "exh":
        starts = start_sets(U)[params.get("part", 0) :: params.get("parts", 1)]
        for si, combo in enumerate(starts):
            ops1 = all_ops(U)
            for oi, op1 in enumerate(ops1):
                case = [U.name, U.flag, list(combo), oi]
                if ctx.only_case is not None and ctx.only_case[:4] != case:
                    continue
                items = [U.make(U.specs[i]) for i in combo]
                s = U.new_set(items)
                M = {U.kf(x): x for x in items}
                s = judged_step(ctx, U, s, M, op1, probes, case)
                if params["depth"] >= 2 and oi % params.get("stride2", 1) == 0 and op1[0] not in ("le", "ge", "eq", "isdisjoint", "or", "and", "sub", "xor"):
                    for oj, op2 in enumerate(all_ops(U, operand_limit=params.get("operand_limit2", 6), rng=rng)):
                        items = [U.make(U.specs[i]) for i in combo]
                        s2 = U.new_set(items)
                        M2 = {U.kf(x): x for x in items}
                        nm, ar = bind(U, op1)
                        try:
                            m = model_apply(U, M2, nm, ar)
                            r = real_apply(U, s2, nm, ar)
                        except (Raise, Exception):
                            break
                        if m is UNSPEC:
                            break
                        _resync(U, s2, M2)
                        judged_step(ctx, U, s2, M2, op2, probes, case + [oj])
            if si % 5 == 0:
                ctx.sample({"universe": U.name, "flag": U.flag, "start": [safe_repr(U.make(U.specs[i]), 30) for i in combo], "ops_enumerated": len(ops1), "example_op": safe_repr(ops1[len(ops1) // 2], 80)}, slot=("exh", len(combo)))
    else:
        ops = all_ops(U)
        for hi in range(params["histories"]):
            combo = rng.choice(start_sets(U))
            items = [U.make(U.specs[i]) for i in combo]
            s = U.new_set(items)
            M = {U.kf(x): x for x in items}
            trace = []
            for step in range(params["length"]):
                op = rng.choice(ops)
                trace.append(safe_repr(op, 60))
                s = judged_step(ctx, U, s, M, op, probes, [U.name, U.flag, "rand", hi, step])
            if hi % 40 == 0:
                ctx.sample({"universe": U.name, "flag": U.flag, "start": [safe_repr(x, 30) for x in items], "history": trace[:10]}, slot=("rand", U.name, U.flag))


def plan(tier, seed):
    shards = [{"mode": "directed"}]
    for u in UNIVERSES:
        for flag in (False, True):
            if tier == "quick":
                shards.append({"universe": u, "flag": flag, "mode": "exh", "depth": 2, "stride2": 4, "operand_limit2": 4})
                shards.append({"universe": u, "flag": flag, "mode": "rand", "histories": 100, "length": 20})
            else:
                for part in range(3):
                    shards.append({"universe": u, "flag": flag, "mode": "exh", "depth": 2, "stride2": 1, "operand_limit2": 12, "part": part, "parts": 3})
                shards.append({"universe": u, "flag": flag, "mode": "rand", "histories": 2500, "length": 25})
    return shards
