"""
C07 - frozen instances are immutable yet still evolvable by copy.

Monitors:
 (a) every live frozen instance is snapshotted around every operation and must never change;
 (b) assignment, deletion and _inplace=True helper calls on a frozen instance must raise
     FrozenInstanceError (and, by (a), change nothing);
 (a') the same for copies a frozen instance hands out while it is still being constructed (taken by a
     __post_init__ hook with deepcopy / a copy-on-write helper): they are complete frozen instances, so they
     join the live instances, and a battery of writes (assignment, deletion, in-place with_/update) is run
     against each and must be rejected; instances built by a subclass's hand-written constructor that
     forwards to the generated one are part of the class pool;
 (c) twin differential: every generated module is materialised twice - as declared (frozen) and with
     the frozen flag removed - and the same operations are run on both from equal states. Every
     copy-on-write operation must have the same outcome class and an alpha-equal result on both, the
     frozen result being a distinct object. The same is done for a frozen nested child (Leaf) inside
     non-frozen parents, where also in-place operations on the parent must agree with the twin.
"""

from __future__ import annotations

import copy

from vlib import classgen as cg
from vlib import driver as dr
from vlib.core import safe_repr
from vlib.snap import alpha, snap

PROP = "C07"
LEVEL = "exploration"
EVAL_COUNTER = "ops_judged"
RULE = (
    "seeded class definitions declared frozen=True directly, inherited through a spec subclass and through a plain subclass, each "
    "paired with its non-frozen twin (and modules whose nested Leaf class is frozen, paired likewise) x histories of every public "
    "operation (all helpers with and without _inplace, assignment, deletion, deepcopy, nested updates through a parent); distinct by "
    "(mode, operation kind, call form, in-place?, outcome class, attribute type, class shape)"
)
ASSUMPTIONS = [
    "deepcopy(frozen) may return the same object (sharing an immutable is not observable); only changes are violations",
    "benign cache fills excluded by saturating cached properties before each snapshot",
    "alpha-equality of results is judged on instance __dict__ contents (class identity differs between twins by construction)",
]


def GATES(tier):
    return [("ops_judged", 500), ("twin_results_compared", 200), ("inplace_attempts_judged", 100), ("frozen_snapshots_compared", 500),
            ("mode:frozen_class", 100), ("mode:frozen_child", 100), ("cls_kind:spec_sub", 10), ("cls_kind:plain_sub", 10),
            ("window_copies_attacked", 20), ("window_copy_writes_judged", 100), ("delegating_init_constructions", 10), ("post_copy_writes_cases", 10), ("directed_descriptor_cases", 10)] + [(f"kind:{hk}", 3) for hk in dr.HELPER_KINDS]


def strip_frozen(decl):
    d = cg.ModuleDecl.from_json(decl.to_json())
    for c in d.classes:
        c.frozen = None
    d.leaf_frozen = False
    return d


def frozen_instances(world, insts, mode):
    """Roots for the immutability snapshot: instances of frozen classes (and, in child mode, every nested Leaf)."""
    roots = {}
    if mode == "frozen_class":
        for i, x in enumerate(insts):
            roots[f"i{i}"] = x
    else:
        from vlib.conform import nested_spec_instances

        k = 0
        for i, x in enumerate(insts):
            for v in x.__dict__.values():
                for leaf in nested_spec_instances(v):
                    if type(leaf).__name__ == "Leaf":
                        roots[f"leaf{k}(of i{i})"] = leaf
                        k += 1
    return roots


def attack_frozen(ctx, world, rng, obj, feats, case, details, FrozenInstanceError):
    """Writes that certainly store something: each must raise FrozenInstanceError and leave `obj` as it was."""
    cname = dr.class_name(world, obj)
    attrs = world.decl.attrs_of(cname)
    ops = []
    for n in rng.sample(list(attrs), min(len(attrs), 3)):
        r_ = cg.conf_recipe(attrs[n][1].tk, rng)
        ops.append({"kind": "setattr", "target": 0, "attr": n, "value": r_, "args": [r_]})
        if n in obj.__dict__:
            ops.append({"kind": "delattr", "target": 0, "attr": n})
    for hk in ("with", "update", "with_item"):
        op = dr.gen_helper(world, rng, [obj], 0, hkind=hk, validity="valid", inplace=True)
        op["kwargs"].pop("_if", None)
        if op["hkind"] == hk:
            ops.append(op)
    for op in ops:
        before = snap({"obj": obj})
        st = dr.execute(world, [obj], op, scopes=(), saturate=False)
        after = snap({"obj": obj})
        ctx.count("window_copy_writes_judged")
        f = dict(feats, write=op.get("hkind", op["kind"]))
        if before != after:
            ctx.violation("frozen_instance_unchanged", f"[{feats['mode']}] {dr.op_src(op)} on a copy taken ({feats['copy_taken_by']}) while its original was being constructed "
                          f"({outcome_class(st)}) changed that frozen instance: {before.diff(after, 3)}", features=f, case=case, **details)
            return
        if not (st.outcome == "raised" and isinstance(st.exc, FrozenInstanceError)):
            ctx.violation("inplace_on_frozen_rejected", f"[{feats['mode']}] {dr.op_src(op)} on a copy taken ({feats['copy_taken_by']}) while its original was being constructed: "
                          f"{outcome_class(st)}; expected FrozenInstanceError", features=f, case=case, **details)
            return


def outcome_class(step):
    return "returned" if step.outcome == "returned" else f"raised:{type(step.exc).__name__}"


DIRECTED_SRC = """
from typing import Dict, List
from spec_classes import spec_class, spec_property, Alias, Attr
from spec_classes.types import KeyedList

@spec_class(key="k", frozen={frozen})
class HItem:                 # keyed element whose key is not a constructor parameter
    k: str = Attr(default="none", init=False)
    v: int = 0

@spec_class(frozen={frozen})
class P:
    x: int = 1
    hitems: List[HItem] = []
    hmaps: Dict[str, HItem] = {{}}
    hkls: KeyedList[HItem, str] = []
    total: int          # managed attribute stored through a property with a setter
    al: int = Alias("x", passthrough=True)   # managed attribute stored through an alias descriptor

    @spec_property(overridable=False)
    def total(self):
        return self.__dict__.get("_total", 10)

    @total.setter
    def total(self, value):
        self.__dict__["_total"] = value
"""


def directed_descriptor_cases(ctx):
    """Attributes stored through a descriptor: copy-on-write helpers behave as on the non-frozen twin, in-place ones are rejected."""
    import warnings

    from spec_classes import FrozenInstanceError

    with warnings.catch_warnings():
        warnings.simplefilter("ignore")
        F = cg.exec_module(DIRECTED_SRC.format(frozen=True), prefix="verif_c07d").__dict__["P"]
        T = cg.exec_module(DIRECTED_SRC.format(frozen=False), prefix="verif_c07d").__dict__["P"]
    view = lambda p: (p.x, p.total, p.al, [(i.k, i.v) for i in p.hitems], [(k, i.k, i.v) for k, i in p.hmaps.items()], [(i.k, i.v) for i in p.hkls])  # noqa: E731
    ops = [
        ("with_total(5)", lambda p, ip: p.with_total(5, _inplace=ip)),
        ("transform_total(inc)", lambda p, ip: p.transform_total(lambda v: v + 1, _inplace=ip)),
        ("update(total=7)", lambda p, ip: p.update(total=7, _inplace=ip)),
        ("with_al(3)", lambda p, ip: p.with_al(3, _inplace=ip)),
        ("transform_al(inc)", lambda p, ip: p.transform_al(lambda v: v + 1, _inplace=ip)),
        ("update(al=4, x=2)", lambda p, ip: p.update(al=4, _inplace=ip)),
        ("with_x(9)", lambda p, ip: p.with_x(9, _inplace=ip)),
        ("deepcopy", lambda p, ip: copy.deepcopy(p)),
        # elements of a frozen class completed by the helper after construction (bare key -> keyed element)
        ("with_hitem('a')", lambda p, ip: p.with_hitem("a", _inplace=ip)),
        ("with_hitem('a', v=2)", lambda p, ip: p.with_hitem("a", v=2, _inplace=ip)),
        ("with_hitems(['a', 'b'])", lambda p, ip: p.with_hitems(["a", "b"], _inplace=ip)),
        ("with_hmap('m', 'a')", lambda p, ip: p.with_hmap("m", "a", _inplace=ip)),
        ("with_hkl('a')", lambda p, ip: p.with_hkl("a", _inplace=ip)),
    ]
    for label, fn in ops:
        for ip in (False, True):
            if label == "deepcopy" and ip:
                continue
            f, t = F(x=2), T(x=2)
            before = view(f)
            ctx.count("ops_judged")
            ctx.count("directed_descriptor_cases")
            feats = {"mode": "directed_descriptor", "hkind": label.split("(")[0], "inplace": ip}
            try:
                rt = view(fn(t, ip))
            except Exception as e:  # the twin decides whether the call is well-formed
                rt = f"raised {type(e).__name__}"
            try:
                rf = view(fn(f, ip))
            except Exception as e:
                rf = f"raised {type(e).__name__}"
            ctx.sig("directed_descriptor", label, ip, str(rf)[:20])
            if view(f) != before:
                ctx.violation("frozen_instance_unchanged", f"[directed] P.{label} (in place: {ip}) changed the frozen receiver: {before} -> {view(f)}", features=feats, case=["directed", label, ip])
            elif ip and not isinstance(rt, str):
                if rf != "raised FrozenInstanceError":
                    ctx.violation("inplace_on_frozen_rejected", f"[directed] in-place P.{label} on a frozen instance: {rf}; expected FrozenInstanceError", features=feats, case=["directed", label, ip])
            elif not ip and rf != rt:
                ctx.violation("frozen_twin_differential", f"[directed] P.{label}: frozen class gives {rf}, the same class without frozen=True gives {rt}", features=feats, case=["directed", label, ip])


def run(ctx, params):
    from spec_classes import FrozenInstanceError

    if params.get("directed"):
        return directed_descriptor_cases(ctx)

    rng = ctx.rng
    for ci in range(params["cases"]):
        mode = "frozen_class" if rng.random() < 0.6 else "frozen_child"
        profile = {"frozen": mode == "frozen_class", "dnc_attrs": False, "delegating_init": 0.35 if mode == "frozen_class" else 0}
        if mode == "frozen_child":
            profile["require"] = [rng.choice(["leaf", "lleaf", "dleaf"])]
        decl = cg.gen_module(rng, profile)
        if mode == "frozen_child":
            decl.leaf_frozen = True
        if mode == "frozen_class" and rng.random() < 0.3:
            decl.classes[0].post_copy = decl.classes[0].post_copy_writes = True  # the documented use of the hook: it finalises (writes to) the copy
            ctx.count("post_copy_writes_cases")
        window_copies = mode == "frozen_class" and rng.random() < 0.4
        if window_copies:
            decl.classes[0].post_init = True
        twin_decl = strip_frozen(decl)
        A, B = cg.World(decl), cg.World(twin_decl)
        captured = []
        if window_copies:
            how = rng.choice(["deepcopy", "with", "update"])

            def grab(label, obj, how=how):
                """Runs inside __post_init__: take a copy of the instance under construction."""
                if obj is None or len(captured) >= 3:
                    return
                present = [n for n in A.decl.attrs_of(dr.class_name(A, obj) or "M") if n in obj.__dict__]
                if how == "deepcopy" or not present:
                    c = copy.deepcopy(obj)
                elif how == "with":
                    c = getattr(obj, f"with_{present[0]}")(copy.deepcopy(obj.__dict__[present[0]]))
                else:
                    c = obj.update(**{present[-1]: copy.deepcopy(obj.__dict__[present[-1]])})
                captured.append((how, c))

            A.probe.actions.append(("post_init:", grab))
        try:
            ia, ib, history = [], [], []
            extra_frozen = []  # copies handed out during construction: (how, instance)
            diverged = False
            for step_i in range(params["ops_per_case"]):
                case = [params.get("shard"), ci, step_i]
                recv = [i for i, x in enumerate(ia) if dr.class_name(A, x) is not None]
                if len(ia) < 2 or (rng.random() < 0.1 and len(ia) < 8):
                    op = dr.gen_construct(A, rng)
                    op["hkind"], op["form"], op["inplace"] = "construct", "kwargs", False
                else:
                    validity = rng.choice(["valid"] * 5 + ["nonconf", "missing_target", "raising_cb"])
                    r = rng.random()
                    if r < 0.08:
                        op = {"kind": "deepcopy", "target": rng.choice(recv), "hkind": "deepcopy", "form": "deepcopy", "inplace": False, "validity": "valid"}
                    else:
                        inplace = rng.random() < (0.3 if mode == "frozen_class" else 0.5)
                        op = dr.gen_any_op(A, rng, ia, validity=validity, inplace=inplace)
                        if op["kind"] == "construct":
                            op["hkind"], op["form"], op["inplace"] = "construct", "kwargs", False
                inplace_on_frozen = mode == "frozen_class" and op.get("inplace") and op["kind"] != "construct" and op.get("kwargs", {}).get("_if", True) is not False
                roots = frozen_instances(A, ia, mode)
                for k, (_how, c) in enumerate(extra_frozen):
                    roots[f"window_copy{k}"] = c
                dr.saturate_caches(A, ia)
                dr.saturate_caches(B, ib)
                before = snap(roots)
                sa = dr.execute(A, ia, op, scopes=(), saturate=False)
                after = snap(roots)
                ctx.count("ops_judged")
                ctx.count(f"mode:{mode}")
                cname = dr.class_name(A, sa.recv) if sa.recv is not None else op.get("cls")
                shape = dr.shape_features(A, cname) if cname else {}
                ctx.count(f"cls_kind:{shape.get('cls_kind')}")
                if op["kind"] == "helper":
                    ctx.count(f"kind:{op['hkind']}")
                t = cg.BY_NAME.get((op.get("attr") or "").split(",")[0], None)
                feats = {"mode": mode, "hkind": op.get("hkind", op["kind"]), "form": op.get("form"), "inplace": bool(op.get("inplace")), "validity": op.get("validity"),
                         "attr_kind": t.kind if t else None, "elem": t.elem if t else None, "outcome": outcome_class(sa)}
                feats.update(shape)
                ctx.sig(mode, feats["hkind"], feats["form"], feats["inplace"], feats["outcome"], feats["attr_kind"], shape.get("cls_kind"), shape.get("lazy"))
                details = dict(history=dr.describe_history(history), source=A.source[-1600:])
                if op["kind"] == "construct" and shape.get("delegating_init"):
                    ctx.count("delegating_init_constructions")
                # (a') copies taken inside the construction window are frozen instances like any other
                while captured:
                    how, c = captured.pop(0)
                    if dr.class_name(A, c) is None:
                        continue
                    ctx.count("window_copies_attacked")
                    if len(extra_frozen) < 4:
                        extra_frozen.append((how, c))
                    attack_frozen(ctx, A, rng, c, dict(feats, copy_taken_by=how, hkind="window_copy"), case, details, FrozenInstanceError)
                # (a) immutability of every frozen instance
                ctx.count("frozen_snapshots_compared")
                if before != after:
                    ctx.violation(
                        "frozen_instance_unchanged",
                        f"[{mode}] {dr.op_src(op)} ({outcome_class(sa)}) changed a frozen instance: {before.diff(after, 3)}",
                        features=feats, case=case, **details,
                    )
                    diverged = True
                # (b) in-place attempts must be rejected
                if inplace_on_frozen:
                    ctx.count("inplace_attempts_judged")
                    if not (sa.outcome == "raised" and isinstance(sa.exc, (FrozenInstanceError, TypeError)) and (isinstance(sa.exc, FrozenInstanceError) or op.get("validity") == "unknown_kw")):
                        if not (sa.outcome == "raised" and isinstance(sa.exc, FrozenInstanceError)):
                            # the twin decides whether this call is otherwise well-formed
                            twin_insts = dr.replay(B, history)
                            twin_before = alpha(twin_insts[op["target"]]) if "target" in op and op["target"] < len(twin_insts) else None
                            sb_probe = dr.execute(B, twin_insts, op, scopes=(), saturate=False)
                            twin_changed = sb_probe.recv is not None and alpha(sb_probe.recv) != twin_before
                            # a call that would not write anything (e.g. transform of a missing value) may return quietly
                            if sb_probe.outcome == "returned" and twin_changed:
                                ctx.violation(
                                    "inplace_on_frozen_rejected",
                                    f"[{mode}] in-place {dr.op_src(op)} on a frozen instance: {outcome_class(sa)}; expected FrozenInstanceError",
                                    features=feats, case=case, **details,
                                )
                # (c) twin differential (in-place attempts on a frozen receiver are not replayed on the twin: they must not happen)
                if inplace_on_frozen:
                    history.append(dict(op, kind="noop")) if False else None
                    continue
                sb = dr.execute(B, ib, op, scopes=(), saturate=False)
                judged_twin = True
                if judged_twin:
                    ctx.count("twin_results_compared")
                    ok = outcome_class(sa) == outcome_class(sb)
                    what = None
                    if not ok:
                        what = f"outcome {outcome_class(sa)}{(': ' + safe_repr(sa.exc, 90)) if sa.exc else ''} vs non-frozen twin {outcome_class(sb)}{(': ' + safe_repr(sb.exc, 60)) if sb.exc else ''}"
                        feats["twin_outcome"] = outcome_class(sb)
                    elif sa.outcome == "returned":
                        va, vb = sa.value, sb.value
                        if dr.class_name(A, va) is not None:
                            if alpha(va) != alpha(vb):
                                what = f"result {safe_repr(va, 80)} vs twin {safe_repr(vb, 80)}"
                                feats["problem"] = "result_state"
                            elif mode == "frozen_class" and op["kind"] == "helper" and va is sa.recv and op.get("kwargs", {}).get("_if", True) is not False and vb is not sb.recv:
                                what = "returned the frozen receiver itself instead of a distinct instance"
                                feats["problem"] = "result_identity"
                        # receiver state must agree as well (in-place operations on non-frozen parents in child mode)
                        if what is None and sa.recv is not None and alpha(sa.recv) != alpha(sb.recv):
                            what = f"receiver afterwards {safe_repr(sa.recv, 80)} vs twin {safe_repr(sb.recv, 80)}"
                            feats["problem"] = "receiver_state"
                    if what:
                        ctx.violation("frozen_twin_differential", f"[{mode}] {dr.op_src(op)}: {what}", features=feats, case=case, **details)
                        diverged = True
                if diverged:
                    break
                dr.register_result(A, ia, sa)
                dr.register_result(B, ib, sb)
                if len(ia) != len(ib):
                    break
                history.append(op)
                if ci % 70 == 0 and step_i == 4:
                    ctx.sample({"mode": mode, "class_source_tail": A.source[-500:], "history": dr.describe_history(history)})
        finally:
            A.close()
            B.close()


def plan(tier, seed):
    if tier == "quick":
        return [{"directed": True}] + [{"shard": i, "cases": 45, "ops_per_case": 14} for i in range(16)]
    return [{"directed": True}] + [{"shard": i, "cases": 900, "ops_per_case": 16} for i in range(32)]
