"""
C19 - lazy bootstrapping equals eager bootstrapping under every thread interleaving.

Monitor: per explored schedule (deterministic sys.monitoring scheduler, cooperative locks) a fresh lazily decorated module
is exec-ed and 2 or 3 real threads each perform a *first use* (instantiate, metadata lookup, dataclasses.fields, instantiate
a subclass, use as nested type). Each thread's outcome and, after all threads finished, a canonical description of every
class (metadata, attribute specs, default values, generated method names with signatures, class-level defaults, repr/state of
a fresh instance and of a helper result) must equal those of the same source decorated bootstrap=True and used sequentially.
No thread may see an exception or a partially initialised class.
"""

from __future__ import annotations

import dataclasses
import inspect
import itertools
import warnings

from vlib import classgen as cg
from vlib import sched as vsched
from vlib.core import REPO_ROOT, safe_repr
from vlib.snap import alpha

PROP = "C19"
LEVEL = "exploration"
EVAL_COUNTER = "schedules_judged"
RULE = (
    "class sources (grammar-generated modules with Attr/field declarations, invalidated_by, preparers, spec and plain subclasses of "
    "a not-yet-bootstrapped parent; hand-written shapes with __new__ defined / inherited and a lazily bootstrapped nested type) x "
    "first-use triggers per thread (instantiate, __spec_class__, dataclasses.fields, instantiate subclass, nested use) x schedules: "
    "all single preemptions at every executed library line, double preemptions over first occurrences of distinct source lines "
    "(sampled in quick), 3-thread double preemptions, PCT-style random priorities; distinct by (source shape, trigger tuple, "
    "schedule kind, preemption source lines)"
)
ASSUMPTIONS = [
    "preemption at statement starts only (schedules produced are real; finer interleavings are not explored)",
    "looking up a helper on a lazily decorated class before any trigger, and the residual __new__ entry, are not part of the comparison (DESIGN.md §4 #11)",
    "the comparison uses the library's own metadata objects only to *describe* both sides (lazy vs eager); expectations come from the eager run",
]
ZERO_GATES = ["schedules_timed_out"]


def GATES(tier):
    return [("schedules_judged", 300), ("distinct_traces", 100), ("class_descriptions_compared", 300), ("thread_outcomes_compared", 600),
            ("trigger:instantiate", 50), ("trigger:metadata", 50), ("trigger:fields", 20), ("trigger:subclass", 20), ("trigger:nested", 10), ("threads:3", 20), ("preused_parent_plans", 1)]


HAND_SOURCES = {
    "sub_defines_new": '''
from typing import List
from spec_classes import spec_class, Attr

@spec_class(bootstrap=BOOT)
class M:
    x: int = Attr(default=1)
    ys: List[int] = Attr(default_factory=lambda: [1])

class P(M):
    def __new__(cls, *args, **kwargs):
        return super().__new__(cls)

@spec_class(bootstrap=BOOT)
class S(M):
    z: int = 2
    def __new__(cls, *args, **kwargs):
        return super().__new__(cls)
''',
    "no_init": '''
from typing import List
from spec_classes import spec_class, Attr

@spec_class(init=False, bootstrap=BOOT)
class M:            # no constructor is generated: the class takes no arguments
    x: int = 1
    ys: List[int] = Attr(default_factory=lambda: [1])

class P(M):
    x = 5

@spec_class(bootstrap=BOOT)
class S(M):         # ... its subclass has one again
    z: int = 2
''',
    "two_lazy_parents": '''
from spec_classes import spec_class, Attr

@spec_class(bootstrap=BOOT)
class M:
    a: int = Attr(default=1)

@spec_class(bootstrap=BOOT)
class H:
    b: int = Attr(default=2)

class P(M, H):      # first used through P: both parents have to be bootstrapped
    pass
''',
    "plain_lazy_chain": '''
from spec_classes import spec_class, Attr

@spec_class(bootstrap=BOOT)
class M:
    x: int = 0

@spec_class(bootstrap=BOOT)
class S(M):
    y: int = Attr(default=1)
''',
    "new_defined": '''
from typing import List
from spec_classes import spec_class, Attr

@spec_class(bootstrap=BOOT)
class M:
    a: int = Attr(default=1)
    xs: List[int] = Attr(default_factory=lambda: [1, 2], repr=True)
    hidden: str = Attr(default="h", init=False, repr=False, compare=False)

    def __new__(cls, *args, **kwargs):
        inst = super().__new__(cls)
        return inst

class P(M):
    a = 5
''',
    "nested_type": '''
from typing import List, Optional
from dataclasses import field
from spec_classes import spec_class, Attr

@spec_class(bootstrap=BOOT)
class M:
    v: int = field(default=0)
    tags: List[str] = field(default_factory=list)

@spec_class(bootstrap=BOOT)
class H:
    child: M = Attr(default_factory=lambda: M(v=1))
    kids: List[M] = []
''',
    "diamond_new": '''
from spec_classes import spec_class

class Root:
    def __new__(cls, *args, **kwargs):
        inst = super().__new__(cls)
        inst.__dict__["root_new"] = inst.__dict__.get("root_new", 0) + 1
        return inst

@spec_class(bootstrap=BOOT)
class M(Root):
    x: int = 1

class Arm(Root):
    def __new__(cls, *args, **kwargs):
        inst = super().__new__(cls, *args, **kwargs)
        inst.__dict__["arm_new"] = True
        return inst

class S(M, Arm):  # MRO: S, M, Arm, Root - every __new__ along it runs, also for the very first instance
    pass
''',
    "diamond_post_init": '''
from spec_classes import spec_class

@spec_class(bootstrap=BOOT)
class M:
    a: int = 1

@spec_class(bootstrap=BOOT)
class S(M):
    b: int = 2

@spec_class(bootstrap=BOOT)
class P(M):
    c: int = 3

@spec_class(bootstrap=BOOT)
class H(S, P):
    d: int = 4

    def __post_init__(self):
        self.d = self.d + 1  # the first assignment on an instance walks the class dictionaries of the whole MRO
''',
    "lazy_parent": '''
from typing import Dict
from spec_classes import spec_class, Attr

@spec_class(key="name", bootstrap=BOOT)
class M:
    name: str = "m"
    weights: Dict[str, int] = Attr(default_factory=lambda: {"a": 1}, invalidated_by=["name"])

@spec_class(bootstrap=BOOT)
class S(M):
    extra: int = Attr(default=7)
    weights = {"b": 2}
''',
}


def lazy_eager_sources(kind, rng):
    """(lazy source, eager source, class names, shape label)."""
    if kind in HAND_SOURCES:
        src = HAND_SOURCES[kind]
        names = [n for n in ("M", "S", "P", "H") if f"class {n}" in src]
        return src.replace("BOOT", "False"), src.replace("BOOT", "True"), names, kind
    decl = cg.gen_module(rng, {"frozen": False, "props": False, "hooks": False})
    lazy = cg.ModuleDecl.from_json(decl.to_json())
    eager = cg.ModuleDecl.from_json(decl.to_json())
    for c in lazy.classes:
        c.bootstrap = False
    for c in eager.classes:
        c.bootstrap = True
    lazy.leaf_bootstrap, eager.leaf_bootstrap = False, True
    shape = "gen:" + "+".join(c.name for c in decl.classes) + (":key" if decl.classes[0].key else "") + (":inv" if any(a.invalidated_by for a in decl.classes[0].attrs) else "")
    return lazy.source(), eager.source(), [c.name for c in decl.classes], shape


def required_kwargs(cls):
    md = cls.__spec_class__
    if md.key and not md.attrs[md.key].has_default:
        return {md.key: "K"}
    return {}


import re

_MODNAME = re.compile(r"verif_(?:c19[le]|adhoc|generated)_\d+")


def _norm(x):
    """Module names of the exec-ed sources differ between the lazy and the eager copy by construction."""
    if isinstance(x, str):
        return _MODNAME.sub("MOD", x)
    if isinstance(x, dict):
        return {k: _norm(v) for k, v in x.items()}
    if isinstance(x, (list, tuple)):
        return type(x)(_norm(v) for v in x)
    return x


def describe_class(cls):
    return _norm(_describe_class(cls))


def _describe_class(cls):
    """Canonical, comparable description of a bootstrapped spec class (or plain subclass of one)."""
    md = cls.__spec_class__
    d = {"key": md.key, "frozen": md.frozen, "do_not_copy": md.do_not_copy, "overflow": md.init_overflow_attr, "owner": md.owner.__name__, "attrs": {}}
    for n, a in md.attrs.items():
        try:
            fac = safe_repr(a.default_factory(), 60) if a.default_factory else None
        except Exception as e:
            fac = f"raises {type(e).__name__}"
        d["attrs"][n] = {
            "type": str(a.type), "default": safe_repr(a.default, 60), "factory": fac, "init": a.init, "repr": a.repr, "compare": a.compare,
            "dnc": a.do_not_copy, "inv": sorted(a.invalidated_by or ()), "owner": getattr(a.owner, "__name__", None), "masked": a.is_masked,
            "item_name": a.item_name if a.is_collection else None, "prepare": bool(a.prepare), "prepare_item": bool(a.prepare_item),
        }
    names = ["__init__", "__repr__", "__eq__", "update", "transform", "reset"]
    for n, a in md.attrs.items():
        names += [f"with_{n}", f"update_{n}", f"transform_{n}", f"reset_{n}"]
        if a.is_collection:
            names += [f"{v}_{a.item_name}" for v in ("with", "update", "transform", "without")]
    meths = {}
    for n in names:
        m = getattr(cls, n, None)
        if m is None:
            meths[n] = None
            continue
        try:
            meths[n] = str(inspect.signature(m))
        except (TypeError, ValueError):
            meths[n] = "<no signature>"
    d["methods"] = meths
    d["class_defaults"] = {n: safe_repr(cls.__dict__[n], 60) for n in md.attrs if n in cls.__dict__}
    # how the class itself is called: its introspectable signature, and what becomes of arguments it does not take
    try:
        d["call_signature"] = str(inspect.signature(cls))
    except (TypeError, ValueError):
        d["call_signature"] = "<no signature>"
    try:
        cls(*(("K",) if md.key else ()), 1, 2, 3)
        d["excess_positional"] = "accepted"
    except Exception as e:
        d["excess_positional"] = type(e).__name__
    try:
        inst = cls(**required_kwargs(cls))
        d["fresh_repr"] = repr(inst)
        d["fresh_state"] = safe_repr(alpha(inst), 300)
        first = next(iter(md.attrs), None)
        if first is not None and first in inst.__dict__:
            res = getattr(inst, f"with_{first}")(inst.__dict__[first])
            d["helper_result"] = repr(res)
    except Exception as e:
        d["fresh_repr"] = f"raises {type(e).__name__}: {e}"
    # class-level values of everything annotated anywhere along the MRO (attributes of *other* spec-class bases included),
    # once the class has been instantiated (which is what bootstraps every lazily decorated base)
    d["annotated_class_values"] = {n: safe_repr(getattr(cls, n, "<none>"), 60) for base in cls.__mro__ for n in getattr(base, "__annotations__", {}) if not n.startswith("_")}
    return d


def trigger_fn(ns, trig, cname):
    cls = ns[cname]
    if trig == "instantiate":
        def f():
            inst = _construct(cls)
            return _norm(("inst", repr(inst), safe_repr(alpha(inst), 300)))
        return f
    if trig == "metadata":
        def f():
            md = cls.__spec_class__
            present = [m for m in ("__spec_class_init__", "update", "transform", "reset") if hasattr(cls, m)]
            first = next(iter(md.attrs), None)
            return ("md", md.key, md.frozen, sorted(md.attrs), present, hasattr(cls, f"with_{first}") if first else None, type(cls.__dict__.get("__setattr__", None)).__name__ if "__setattr__" in cls.__dict__ or md.owner is cls else "inherited")
        return f
    if trig == "fields":
        def f():
            return ("fields", [fld.name for fld in dataclasses.fields(cls)], hasattr(cls, "update"))
        return f
    raise ValueError(trig)


def _construct(cls):
    try:
        return cls()
    except TypeError as e:
        if "missing" in str(e) and "required" in str(e):
            md = cls.__spec_class__
            return cls(**{md.key: "K"})
        raise


def thread_plans(names, nthreads):
    """Ordered list of first-use plans ((trigger, class) per thread; a trailing "preuse_parent" marks the parent as already used)."""
    base = names[0]
    subs = names[1:]
    if nthreads == 3:
        return [[("instantiate", base), ("metadata", base), ("instantiate", subs[0] if subs else base)], [("instantiate", base), ("instantiate", base), ("fields", base)],
                [("instantiate", subs[-1] if subs else base), ("instantiate", subs[0] if subs else base), ("metadata", base)]]
    if not subs:
        return [[("instantiate", base), ("instantiate", base)], [("instantiate", base), ("metadata", base)], [("metadata", base), ("fields", base)], [("fields", base), ("instantiate", base)],
                [("metadata", base), ("metadata", base)]]
    x = subs[0]
    y = subs[-1]
    if len(subs) == 3:  # diamond: the leaf together with each of the classes above it
        return [[("instantiate", y), ("instantiate", subs[1])], [("instantiate", y), ("instantiate", x)], [("instantiate", subs[1]), ("instantiate", y)], [("instantiate", y), ("instantiate", base)],
                [("instantiate", y), ("instantiate", y)], [("instantiate", y), ("metadata", subs[1])]]
    return [[("instantiate", x), ("instantiate", x)], [("instantiate", y), ("instantiate", y), "preuse_parent"], [("instantiate", x), ("instantiate", base)], [("instantiate", base), ("metadata", base)],
            [("instantiate", y), ("metadata", y)], [("metadata", base), ("fields", base)], [("instantiate", x), ("instantiate", x), "preuse_parent"]]


def trig_label(t, names):
    trig, cname = t
    if trig == "instantiate" and cname != names[0]:
        return "nested" if cname == "H" else "subclass"
    return trig


def run(ctx, params):
    rng = ctx.rng
    S = vsched.Scheduler(REPO_ROOT)
    vsched.install_coop_locks(S)
    # warm up everything a first use can import lazily, single-threaded
    warm = cg.exec_module(HAND_SOURCES["lazy_parent"].replace("BOOT", "False") + "\n" + HAND_SOURCES["nested_type"].replace("BOOT", "False").replace("class M", "class M2").replace("M(", "M2(").replace("[M]", "[M2]").replace(": M ", ": M2 ")).__dict__
    for n in ("M", "S", "H"):
        try:
            describe_class(warm[n])
        except Exception:
            pass
    w = cg.World(cg.gen_module(rng, {"frozen": False}))
    for c in w.classes.values():
        try:
            describe_class(c)
        except Exception:
            pass
    w.close()
    seen = set()
    for ci in range(params["sources"]):
        kind = params["kinds"][ci % len(params["kinds"])]
        lazy_src, eager_src, names, shape = lazy_eager_sources(kind, rng)
        extra = {"PROBE": w.probe, "_ro": cg._ro, "TRANSFORMS": {}}
        plans = thread_plans(names, 3 if params.get("threads") == 3 else 2)
        slot = (params.get("shard", 0) // 8) * params["sources"] + ci  # every source kind meets several different plans across the shards
        plan = list(plans[slot % len(plans)])
        preuse = plan[-1] == "preuse_parent"
        if preuse:
            plan = plan[:-1]
            ctx.count("preused_parent_plans")
        nthreads = len(plan)
        # --- eager reference: same source, bootstrap=True, same uses sequentially --------------------
        ens = cg.exec_module(eager_src, extra=dict(extra), prefix="verif_c19e").__dict__
        try:
            if preuse:
                _construct(ens[names[0]])
            ref_out = [trigger_fn(ens, t, c)() for t, c in plan]
            ref_desc = {n: describe_class(ens[n]) for n in names}
        except Exception as e:
            ctx.count("eager_reference_failed")
            continue
        # md trigger result contains a field that depends on bootstrap mode only through completeness: normalise
        def fresh():
            ns_ = cg.exec_module(lazy_src, extra=dict(extra), prefix="verif_c19l").__dict__
            if preuse:
                _construct(ns_[names[0]])  # the parent is already in use when the threads make the first use of the subclass
            return ns_

        def judge(directives, first, skind, pct=None):
            ns = fresh()
            try:
                return judge_in(ns, directives, first, skind, pct)
            finally:
                # every schedule runs on freshly exec-ed classes: let go of them (module registry, scheduler's code cache)
                import sys as _sys

                _sys.modules.pop(ns.get("__name__"), None)
                ns.clear()
                S._interesting.clear()

        def judge_in(ns, directives, first, skind, pct=None):
            fns = [trigger_fn(ns, t, c) for t, c in plan]
            filters_before = list(warnings.filters)
            r = S.run(fns, directives=directives, first=first, pct=pct, watchdog=30.0)
            ctx.count("schedules_run")
            if r.timed_out:
                ctx.count("schedules_timed_out")
                if ctx.counters["schedules_timed_out"] > 3:
                    # a thread is parked somewhere the scheduler cannot see: no verdict, and no point in waiting out every schedule
                    raise RuntimeError("scheduler: more than 3 schedules ran into the wall-clock watchdog (inconclusive)")
                return r
            ctx.count("schedules_judged")
            ctx.count(f"threads:{nthreads}")
            for t in plan:
                ctx.count(f"trigger:{trig_label(t, names)}")
            tl = r.trace_lines()
            if tl not in seen:
                seen.add(tl)
                ctx.count("distinct_traces")
            where = tuple(x[1] for x in tl)[:3]
            ctx.sig(shape, tuple(trig_label(t, names) for t in plan), skind, where)
            feats = {"shape": shape.split(":")[0] if shape.startswith("gen") else shape, "triggers": [trig_label(t, names) for t in plan], "schedule_kind": skind,
                     "preempt_at": [x.split(":")[0] for x in where], "threads": nthreads}
            case = [kind, ci, [list(t) for t in plan], [list(d) for d in (directives or [])], first, pct]
            details = dict(schedule=[(a, c, d) for a, _b, c, d in r.trace], source=lazy_src[-1200:])
            if r.deadlock:
                ctx.violation("no_deadlock", f"[{shape}] triggers {plan}: schedule {details['schedule']} deadlocked", features=feats, case=case, **details)
                return r
            for i, (o, ref) in enumerate(zip(r.outcomes, ref_out)):
                ctx.count("thread_outcomes_compared")
                if o[0] != "returned":
                    ctx.violation("thread_sees_exception", f"[{shape}] thread {i} ({plan[i][0]} {plan[i][1]}) under schedule {details['schedule']}: {type(o[1]).__name__}: {safe_repr(o[1], 140)}",
                                  features=dict(feats, exc=type(o[1]).__name__, failing_trigger=trig_label(plan[i], names)), case=case, **details)
                    return r
                if o[1] != ref:
                    diff = [(a, b) for a, b in zip(o[1], ref) if a != b][:2]
                    ctx.violation("thread_outcome_equals_eager", f"[{shape}] thread {i} ({plan[i][0]} {plan[i][1]}) under schedule {details['schedule']}: observed {safe_repr(diff, 260)} (lazy, eager)",
                                  features=dict(feats, failing_trigger=trig_label(plan[i], names)), case=case, **details)
                    return r
            if list(warnings.filters) != filters_before:
                extra_f = [f for f in warnings.filters if f not in filters_before]
                ctx.violation("process_warning_filters_restored", f"[{shape}] after schedule {details['schedule']} warnings.filters differs from what it was before the threads ran: added {safe_repr(extra_f, 120)}",
                              features=dict(feats, added=len(extra_f)), case=case, **details)
                warnings.filters[:] = filters_before
                return r
            call_sig_diffs = []
            for n in names:
                ctx.count("class_descriptions_compared")
                try:
                    got = dict(describe_class(ns[n]))
                except Exception as e:
                    ctx.violation("class_equals_eager", f"[{shape}] class {n} cannot be described after schedule {details['schedule']}: {type(e).__name__}: {e}", features=feats, case=case, **details)
                    return r
                # how the class object itself is called is judged on its own (after everything else, and without ending
                # the comparison): see the open finding `lazy-standin-new-call-signature`
                got_sig, ref_sig = got.pop("call_signature", None), ref_desc[n].get("call_signature")
                if got_sig != ref_sig:
                    call_sig_diffs.append((n, got_sig, ref_sig, type(ns[n].__dict__.get("__new__")).__name__ if "__new__" in ns[n].__dict__ else None))
                if got != {k: v for k, v in ref_desc[n].items() if k != "call_signature"}:
                    keys = [k for k in got if got[k] != ref_desc[n].get(k)]
                    sub = {}
                    for k in keys[:2]:
                        if isinstance(got[k], dict):
                            sub[k] = {kk: (got[k].get(kk), ref_desc[n][k].get(kk)) for kk in set(got[k]) | set(ref_desc[n][k]) if got[k].get(kk) != ref_desc[n][k].get(kk)}
                        else:
                            sub[k] = (got[k], ref_desc[n][k])
                    ctx.violation("class_equals_eager", f"[{shape}] class {n} after schedule {details['schedule']} differs from the eager class in {keys}: {safe_repr(sub, 300)} (lazy, eager)",
                                  features=dict(feats, differing=keys[:3]), case=case, **details)
                    return r
            for n, got_sig, ref_sig, own_new in call_sig_diffs[:1]:
                ctx.count("call_signature_differences")
                ctx.violation("class_call_signature_equals_eager", f"[{shape}] inspect.signature({n}) is {got_sig} on the lazily bootstrapped class and {ref_sig} on the eager one (own __new__ left on the lazy class: {own_new})",
                              features=dict(feats, lazy_call_signature=got_sig, own_new_kind=own_new, eager_has_own_new="__new__" in ens[n].__dict__), case=case, **details)
            return r

        base = None
        for first in range(nthreads):
            r = judge([], first, "sequential")
            if first == 0:
                base = r
        if base is None or base.timed_out:
            continue
        # learn each thread's own step count / lines when it goes first
        ns = fresh()
        fns = [trigger_fn(ns, t, c) for t, c in plan]
        rec = S.run(fns, first=0, record_lines=True, watchdog=30.0)
        steps0 = rec.steps[0]
        lines0 = rec.lines[0]
        first_occ = {}
        for k, (f_, l_, _n) in enumerate(lines0):
            first_occ.setdefault((f_, l_), k)
        distinct_steps = sorted(first_occ.values())
        # single preemptions of the first thread: every dynamic step (thorough) or a sample + all distinct lines (quick)
        if params["single"] == "all":
            singles = list(range(steps0))
        else:
            singles = sorted(set(distinct_steps[:: max(1, len(distinct_steps) // params["single"])] + rng.sample(range(steps0), min(steps0, params["single"]))))
        for s in singles:
            for target in range(1, nthreads):
                judge([(0, s, target)], 0, "1-preemption")
        # double preemptions over first occurrences of distinct lines: T0 -> T1 at s1, T1 -> T0/T2 at s2
        ns = fresh()
        fns = [trigger_fn(ns, t, c) for t, c in plan]
        rec1 = S.run(fns, first=1 % nthreads, record_lines=True, watchdog=30.0)
        occ1 = {}
        for k, (f_, l_, _n) in enumerate(rec1.lines[1 % nthreads]):
            occ1.setdefault((f_, l_), k)
        d1 = sorted(occ1.values())
        # all pairs over the synchronisation code (first-use placeholders, bootstrapper, __new__ wrapper, method descriptors),
        # a sample of the remaining pairs over distinct lines
        sync_funcs = {"__new__", "bootstrapper", "__get__", "_publish_metadata", "__call__"}

        def sync_steps(lines, occ):
            return sorted({occ[(f_, l_)] for (f_, l_, fn_) in lines if fn_ in sync_funcs and f_ in ("spec_class.py", "methods/base.py") and (f_, l_) in occ})

        p0, p1 = sync_steps(lines0, first_occ), sync_steps(rec1.lines[1 % nthreads], occ1)
        priority = [(s1, s2) for s1 in p0 for s2 in p1]
        if len(priority) > params.get("priority_double", 10**9):
            priority = rng.sample(priority, params["priority_double"])
        ctx.count("priority_pairs", len(priority))
        rest = [(s1, s2) for s1 in distinct_steps for s2 in d1]
        if len(rest) > params["double"]:
            rest = rng.sample(rest, params["double"])
        pairs = priority + rest
        for s1, s2 in pairs:
            back = 0 if nthreads == 2 else 2
            judge([(0, s1, 1), (1, s2, back)], 0, "2-preemptions")
        total = sum(rec.steps)
        for _ in range(params["pct"]):
            pr = list(range(nthreads))
            rng.shuffle(pr)
            cps = sorted(rng.sample(range(1, max(2, total)), min(3, max(1, total - 1))))
            judge(None, 0, "pct", pct={"priorities": pr, "change_points": cps})
        if ci < 2:
            ctx.sample({"shape": shape, "triggers": [list(t) for t in plan], "steps_thread0": steps0, "distinct_lines_thread0": len(distinct_steps), "example_lines": [f"{f}:{l}" for f, l, _n in lines0[200:206]]})


def plan(tier, seed):
    kinds = ["gen", "new_defined", "plain_lazy_chain", "nested_type", "gen", "lazy_parent", "sub_defines_new", "diamond_new", "diamond_post_init", "no_init", "two_lazy_parents"]
    if tier == "quick":
        return [{"shard": i, "sources": 2, "kinds": kinds[i % 11 :] + kinds[: i % 11], "single": 40, "double": 30, "priority_double": 160, "pct": 10, "threads": 3 if i % 4 == 3 else 2} for i in range(16)]
    # (three-thread schedules are longer and their single-preemption set is large: those shards take two sources and a
    # sample of at most 800 single-preemption schedules per plan, so that they do not become the tail of the run)
    return [{"shard": i, "sources": 2 if i % 4 == 3 else 3, "kinds": kinds[i % 11 :] + kinds[: i % 11], "single": 400 if i % 4 == 3 else "all", "double": 200, "pct": 60, "threads": 3 if i % 4 == 3 else 2} for i in range(32)]
