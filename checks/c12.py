"""
C12 - spec_property and classproperty follow the override / cache / getter protocol.

Monitor: explicit state-machine model run in lock-step with the real descriptor.
Every access (read / assign / delete / change of underlying state) of every
enumerated sequence is executed on a fresh real instance and its outcome
(value or exception class) plus the observable slot state is compared with the
model.
"""

from __future__ import annotations

import itertools

from vlib.core import safe_repr

PROP = "C12"
LEVEL = "exploration"
EVAL_COUNTER = "accesses_judged"
GATES = ["accesses_judged", "sp_sequences", "cp_sequences", "expected_exceptions", "cache_hits_expected", "override_reads_expected"]
RULE = (
    "spec_property: all 16 (overridable, cache, setter, deleter) combinations x hosts {plain class, spec class unmanaged, "
    "spec class managed, managed + preparer} x all operation sequences up to the tier's length over {read, assign v1, assign v2, "
    "assign bad-type, delete, bump underlying state, poison underlying state}; classproperty: 32 (overridable, cache, "
    "cache_per_subclass, setter, deleter) combinations x all sequences over (read via class / read, assign, delete via instance) "
    "x {Base, Mid, Leaf} + bump; a case is distinct by (kind, options, host, sequence of operation kinds, outcome classes)"
)
ASSUMPTIONS = [
    "state-machine model in checks/c12.py: read = override/cache slot, else getter(current state) [prepared + type-checked on managed hosts], cached when caching;"
    " a successful deletion (custom deleter included) ends the cache/override epoch",
    "custom setter/deleter bodies are harness code with known effects (setter stores into underlying state, deleter counts)",
]
EXHAUSTIVE = {"quick": True, "thorough": True}

SP_OPS = ["read", "assign1", "assign2", "assign_bad", "assign_none", "delete", "delete_failing", "bump", "poison", "nullify"]
HOSTS = ["plain", "spec_unmanaged", "spec_managed", "spec_prepared"]


# --------------------------------------------------------------------------
# spec_property
# --------------------------------------------------------------------------


def make_sp_host(o, c, s, d, host):
    from spec_classes import spec_class, spec_property

    def getter(self):
        b = self.__dict__.get("base", 1)
        return None if b == "none" else b * 10  # None is a value like any other: it is cached / overridden, not "absent"

    def setter(self, value):
        self.__dict__["base"] = value

    def deleter(self):
        if self.__dict__.pop("trip", False):
            raise RuntimeError("deleter failed")  # a deletion that fails discards nothing
        self.__dict__["deleted"] = self.__dict__.get("deleted", 0) + 1

    if host == "spec_unmanaged":
        # the keyword form of the documented signature (the one builtin `property` accepts as well)
        p = spec_property(fget=getter, fset=setter if s else None, fdel=deleter if d else None, overridable=o, cache=c)
    else:
        p = spec_property(getter, overridable=o, cache=c)
        if s:
            p = p.setter(setter)
        if d:
            p = p.deleter(deleter)
    ns = {"p": p}
    if host in ("spec_managed", "spec_prepared"):
        ns["__annotations__"] = {"p": int}
    if host == "spec_prepared":

        def _prepare_p(self, v):
            return v + 1 if isinstance(v, int) else v

        ns["_prepare_p"] = _prepare_p
    cls = type("Host", (), ns)
    if host != "plain":
        cls = spec_class(bootstrap=True)(cls)
    return cls


class SPModel:
    def __init__(self, o, c, s, d, host):
        self.o, self.c, self.s, self.d, self.host = o, c, s, d, host
        self.base = 1
        self.slot_set = False
        self.slot = None
        self.deleted = 0
        self.managed = host in ("spec_managed", "spec_prepared")

    def prep(self, v):
        if self.host == "spec_prepared" and isinstance(v, int):
            return v + 1
        return v

    def step(self, op):
        """Return ('ok', value) or ('exc', ExceptionClass)."""
        if op == "read":
            if (self.o or self.c) and self.slot_set:
                return ("ok", self.slot, "slot")
            if self.base is None:
                return ("exc", TypeError)  # the getter itself fails (None * 10)
            v = None if self.base == "none" else self.base * 10
            if self.managed:
                v = self.prep(v)
                if not isinstance(v, int):
                    return ("exc", ValueError)
            if self.c:
                self.slot_set, self.slot = True, v
            return ("ok", v, "getter")
        if op in ("assign1", "assign2", "assign_bad", "assign_none"):
            v = {"assign1": 5, "assign2": 7, "assign_bad": "bad", "assign_none": None}[op]
            if self.managed:
                v = self.prep(v)
                if not isinstance(v, int):
                    return ("exc", TypeError)
            if self.s:
                self.base = v
                return ("ok", None, "setter")
            if self.o:
                self.slot_set, self.slot = True, v
                return ("ok", None, "override")
            return ("exc", AttributeError)
        if op == "delete_failing" and self.d:
            return ("exc", RuntimeError)  # the user's deleter raises: nothing is discarded, nothing counted
        if op in ("delete", "delete_failing"):
            had = (self.o or self.c) and self.slot_set
            if had:
                self.slot_set, self.slot = False, None
            if self.d:
                self.deleted += 1
                return ("ok", None, "deleter")
            if not had:
                return ("exc", AttributeError)
            return ("ok", None, "slot_removed")
        if op == "bump":
            self.base = (self.base if isinstance(self.base, int) else 0) + 1
            return ("ok", None, "state")
        if op == "poison":
            self.base = "s"
            return ("ok", None, "state")
        if op == "nullify":
            self.base = "none"
            return ("ok", None, "state")
        raise ValueError(op)


def sp_real_step(h, op):
    try:
        if op == "read":
            return ("ok", h.p)
        if op in ("assign1", "assign2", "assign_bad", "assign_none"):
            h.p = {"assign1": 5, "assign2": 7, "assign_bad": "bad", "assign_none": None}[op]
            return ("ok", None)
        if op == "delete":
            del h.p
            return ("ok", None)
        if op == "delete_failing":
            h.__dict__["trip"] = True
            try:
                del h.p
            finally:
                h.__dict__.pop("trip", None)
            return ("ok", None)
        if op == "bump":
            b = h.__dict__.get("base", 1)
            h.__dict__["base"] = (b if isinstance(b, int) else 0) + 1
            return ("ok", None)
        if op == "poison":
            h.__dict__["base"] = "s"
            return ("ok", None)
        if op == "nullify":
            h.__dict__["base"] = "none"
            return ("ok", None)
    except BaseException as e:  # noqa
        return ("exc", type(e), e)
    raise ValueError(op)


def run_sp(ctx, params):
    length = params["length"]
    combos = list(itertools.product([False, True], repeat=4))
    combos = combos[params.get("part", 0) :: params.get("parts", 1)]
    for o, c, s, d in combos:
        for host in HOSTS:
            cls = make_sp_host(o, c, s, d, host)
            opts = f"o={int(o)},c={int(c)},s={int(s)},d={int(d)}"
            for n in range(1, length + 1):
                for seq in itertools.product(SP_OPS, repeat=n):
                    if n < length and seq[-1] != "read":
                        pass  # shorter sequences are prefixes of longer ones, but cheap: keep for per-length signatures
                    ctx.count("sp_sequences")
                    h = cls()
                    m = SPModel(o, c, s, d, host)
                    outcomes = []
                    for i, op in enumerate(seq):
                        exp = m.step(op)
                        got = sp_real_step(h, op)
                        ctx.count("accesses_judged")
                        if exp[0] == "exc":
                            ctx.count("expected_exceptions")
                            ok = got[0] == "exc" and issubclass(got[1], exp[1])
                            outcomes.append(exp[1].__name__)
                        else:
                            ok = got[0] == "ok" and got[1] == exp[1]
                            outcomes.append(exp[2])
                            if op == "read" and exp[2] == "slot":
                                ctx.count("cache_hits_expected" if not m.o or m.c else "override_reads_expected")
                                if m.o:
                                    ctx.count("override_reads_expected")
                                if m.c:
                                    ctx.count("cache_hits_expected")
                        # observable slot / underlying state
                        state_ok = True
                        if ok:
                            in_dict = "p" in h.__dict__
                            state_ok = (
                                in_dict == m.slot_set
                                and h.__dict__.get("base", 1) == m.base
                                and h.__dict__.get("deleted", 0) == m.deleted
                                and (not in_dict or h.__dict__["p"] == m.slot)
                            )
                        if not ok or not state_ok:
                            what = (
                                f"spec_property({opts}) on {host}: sequence {list(seq[: i + 1])}: step {i} `{op}` "
                                f"-> {('raises ' + got[1].__name__ + ': ' + str(got[2])[:80]) if got[0] == 'exc' else safe_repr(got[1], 40)}, "
                                f"model {('raises ' + exp[1].__name__) if exp[0] == 'exc' else safe_repr(exp[1], 40) + ' via ' + exp[2]}"
                            )
                            if ok and not state_ok:
                                what += f"; state after: __dict__={safe_repr(dict(h.__dict__), 80)}, model slot={'unset' if not m.slot_set else m.slot!r} base={m.base!r} deleted={m.deleted}"
                            ctx.violation(
                                "sp_protocol" if not ok else "sp_state",
                                what,
                                features={
                                    "kind": "spec_property", "overridable": o, "cache": c, "setter": s, "deleter": d, "host": host,
                                    "op": op, "expected": outcomes[-1], "prev_ops": sorted(set(seq[:i])),
                                },
                                case=["sp", opts, host, list(seq), i],
                            )
                            break
                    # distinct by configuration and by the sequence of model outcomes (every sequence is judged and counted in
                    # `sp_sequences`; keeping one signature string per sequence cost gigabytes in the thorough tier)
                    ctx.sig("sp", opts, host, ",".join(outcomes))
            ctx.sample({"kind": "spec_property", "options": opts, "host": host, "sequences_up_to": length, "example": list(SP_OPS[:length])}, slot=("sp", opts, host) if (o, c, s, d) in ((True, True, False, True),) else ("sp",))


# --------------------------------------------------------------------------
# classproperty
# --------------------------------------------------------------------------


def make_cp_classes(o, c, per, s, d):
    from spec_classes import classproperty

    def getter(cls):
        return (cls.__name__, cls.state[0])

    cp = classproperty(getter, overridable=o, cache=c, cache_per_subclass=per)
    if s:

        def setter(cls, value):
            cls.log.append(("set", cls.__name__, value))

        cp = cp.setter(setter)
    if d:

        def deleter(cls):
            if cls.fail[0]:
                raise RuntimeError("deleter failed")  # a deletion that fails discards nothing
            cls.log.append(("del", cls.__name__))

        cp = cp.deleter(deleter)
    Base = type("Base", (), {"p": cp, "state": [0], "log": [], "fail": [False]})
    Mid = type("Mid", (Base,), {})
    Leaf = type("Leaf", (Mid,), {})
    return {"Base": Base, "Mid": Mid, "Leaf": Leaf}


CP_CLASSES = ["Base", "Mid", "Leaf"]
CP_OPS = (
    [("cread", k) for k in CP_CLASSES]
    + [("iread", k) for k in CP_CLASSES]
    + [("iassign", k) for k in CP_CLASSES]
    + [("idelete", k) for k in CP_CLASSES]
    + [("idelete_failing", k) for k in ("Base", "Leaf")]
    + [("bump", None)]
)


class CPModel:
    def __init__(self, o, c, per, s, d):
        self.o, self.c, self.per, self.s, self.d = o, c, per, s, d
        self.cache = {}
        self.state = 0
        self.log = []

    def key(self, k):
        return k if self.per else None

    def step(self, op, k, v):
        if op in ("cread", "iread"):
            key = self.key(k)
            if key in self.cache:
                return ("ok", self.cache[key], "slot")
            val = (k, self.state)
            if self.c:
                self.cache[key] = val
            return ("ok", val, "getter")
        if op == "iassign":
            if self.s:
                self.log.append(("set", k, v))
                return ("ok", None, "setter")
            if self.o:
                self.cache[self.key(k)] = v
                return ("ok", None, "override")
            return ("exc", AttributeError)
        if op == "idelete_failing" and self.d:
            return ("exc", RuntimeError)  # the user's deleter raises: nothing is discarded, nothing logged
        if op in ("idelete", "idelete_failing"):
            key = self.key(k)
            had = key in self.cache
            if had:
                del self.cache[key]
            if self.d:
                self.log.append(("del", k))
                return ("ok", None, "deleter")
            if not had:
                return ("exc", AttributeError)
            return ("ok", None, "slot_removed")
        if op == "bump":
            self.state += 1
            return ("ok", None, "state")
        raise ValueError(op)


def run_cp(ctx, params):
    length = params["length"]
    combos = list(itertools.product([False, True], repeat=5))
    combos = combos[params.get("part", 0) :: params.get("parts", 1)]
    for o, c, per, s, d in combos:
        opts = f"o={int(o)},c={int(c)},per={int(per)},s={int(s)},d={int(d)}"
        for seq in itertools.product(CP_OPS, repeat=length):
            ctx.count("cp_sequences")
            classes = make_cp_classes(o, c, per, s, d)
            insts = {k: classes[k]() for k in CP_CLASSES}
            m = CPModel(o, c, per, s, d)
            outcomes = []
            for i, (op, k) in enumerate(seq):
                v = ("ovr", i)
                exp = m.step(op, k, v)
                try:
                    if op == "cread":
                        got = ("ok", classes[k].p)
                    elif op == "iread":
                        got = ("ok", insts[k].p)
                    elif op == "iassign":
                        insts[k].p = v
                        got = ("ok", None)
                    elif op in ("idelete", "idelete_failing"):
                        classes["Base"].fail[0] = op == "idelete_failing"
                        try:
                            del insts[k].p
                        finally:
                            classes["Base"].fail[0] = False
                        got = ("ok", None)
                    else:
                        classes["Base"].state[0] += 1
                        got = ("ok", None)
                except BaseException as e:  # noqa
                    got = ("exc", type(e), e)
                ctx.count("accesses_judged")
                if exp[0] == "exc":
                    ctx.count("expected_exceptions")
                    ok = got[0] == "exc" and issubclass(got[1], exp[1])
                    outcomes.append(exp[1].__name__)
                else:
                    ok = got[0] == "ok" and got[1] == exp[1]
                    outcomes.append(exp[2])
                    if exp[2] == "slot":
                        ctx.count("cache_hits_expected")
                        if o:
                            ctx.count("override_reads_expected")
                if ok and classes["Base"].log != m.log:
                    ok = False
                if not ok:
                    ctx.violation(
                        "cp_protocol",
                        f"classproperty({opts}): sequence {[f'{a}:{b}' for a, b in seq[: i + 1]]}: step {i} -> "
                        f"{('raises ' + got[1].__name__ + ': ' + str(got[2])[:80]) if got[0] == 'exc' else safe_repr(got[1], 40)}, "
                        f"model {('raises ' + exp[1].__name__) if exp[0] == 'exc' else safe_repr(exp[1], 40) + ' via ' + exp[2]}"
                        f"; setter/deleter log {classes['Base'].log} vs model {m.log}",
                        features={"kind": "classproperty", "overridable": o, "cache": c, "per_subclass": per, "setter": s, "deleter": d, "op": op, "expected": outcomes[-1], "prev_ops": sorted({a for a, _ in seq[:i]})},
                        case=["cp", opts, [list(x) for x in seq], i],
                    )
                    break
            ctx.sig("cp", opts, ",".join(outcomes))
        ctx.sample({"kind": "classproperty", "options": opts, "sequence_length": length, "example": [f"{a}:{b}" for a, b in CP_OPS[:length]]}, slot=("cp",))


def run(ctx, params):
    if params["kind"] == "sp":
        run_sp(ctx, params)
    else:
        run_cp(ctx, params)


def plan(tier, seed):
    if tier == "quick":
        return [{"kind": "sp", "length": 4, "part": i, "parts": 8} for i in range(8)] + [
            {"kind": "cp", "length": 3, "part": i, "parts": 8} for i in range(8)
        ]
    return [{"kind": "sp", "length": 6, "part": i, "parts": 16} for i in range(16)] + [
        {"kind": "cp", "length": 4, "part": i, "parts": 16} for i in range(16)
    ]
