"""
C17 - every generated method accepts exactly what its advertised signature says.

Monitor: spy at the wrapper/implementation boundary. Each generated method is an exec-compiled wrapper that looks its
implementation up in its own __globals__["implementation"]; the harness swaps in a spy that records the call (and does
not run the real implementation, so any sentinel value can be passed). For every generated method of every generated
class, with sig = inspect.signature(method):
 (a) every advertised parameter alone, and pairs of them, is accepted and reaches the spy with exactly the object given;
 (b) positional-or-keyword parameters also work positionally, keyword-only ones are rejected positionally;
 (c) omitted real parameters reach the spy with the advertised default;
 (d) any name outside the signature raises TypeError, the spy is not called and the instance is unchanged (unless **kwargs is advertised);
 (e) the nested-attribute keywords are exactly the init-enabled attributes of the nested spec class, per the harness's own declaration.
"""

from __future__ import annotations

import inspect
import itertools

from vlib import classgen as cg
from vlib.core import safe_repr

PROP = "C17"
LEVEL = "exploration"
EVAL_COUNTER = "calls_judged"
RULE = (
    "every generated method (constructor, update/transform/reset, 4 scalar helpers per attribute, 4 element helpers per collection "
    "attribute) of every class of seeded modules (incl. init=False attributes, key attributes, overflow attribute, spec and plain "
    "subclasses) x every advertised parameter alone, positional use, omitted defaults, sampled/all pairs, and unadvertised names "
    "(other classes' attributes, init=False attributes, another class's overflow attribute, private names); distinct by (method kind, "
    "attribute type, parameter name class, call mode, verdict)"
)
ASSUMPTIONS = [
    "defaults displayed for virtual (nested-attribute) keywords are documentation only (MethodBuilder) and are not compared",
    "the spy replaces __globals__['implementation'] of the compiled wrapper; acceptance means the wrapper validated the call and invoked it",
]
UNADVERTISED = ["zz_other_class_attr", "_private", "__dunder__", "extras_of_other", "no_such_attribute"]


def GATES(tier):
    return [("calls_judged", 3000), ("methods_checked", 300), ("mode:single", 500), ("mode:positional", 100), ("mode:kwonly_positional_rejected", 100), ("mode:default", 200),
            ("mode:pair", 300), ("mode:unadvertised", 300), ("nested_keyword_sets_compared", 100), ("kind:__init__", 20), ("kind:element", 50), ("kind:scalar", 100), ("kind:toplevel", 30),
            ("init_false_attrs_seen", 3), ("overflow_classes", 2), ("mode:unadvertised_if_false", 100), ("behavioural_probes", 20), ("unchanged_with_keyword_probes", 5), ("directed_cases", 20), ("directed_value_cases", 10), ("overflow_sequences_steps", 10)]


class Spy:
    def __init__(self):
        self.calls = []

    def __call__(spy, *args, **kwargs):  # noqa: N805 - the wrapper passes `self=` as a keyword
        spy.calls.append((args, kwargs))
        return "spy-result"


def method_names(decl, cname):
    """{method name: (kind, attr or None)} expected for class cname (only used to enumerate, the signature is read from the method)."""
    out = {"__init__": ("__init__", None), "update": ("toplevel", None), "transform": ("toplevel", None), "reset": ("toplevel", None)}
    for n, (_o, a) in decl.attrs_of(cname).items():
        for verb in ("with", "update", "transform", "reset"):
            out[f"{verb}_{n}"] = ("scalar", n)
        if a.info.kind in cg.COLLECTION_KINDS:
            for verb in ("with", "update", "transform", "without"):
                out[f"{verb}_{a.info.singular}"] = ("element", n)
    return out


def expected_nested_keywords(decl, cname, mname, kind, attr):
    """Names of nested-attribute (virtual) keywords the method must advertise, from the declaration; None = not applicable."""
    leaf = {"leaf": {"v", "w", "ws"}, "kleaf": {"k", "v"}}
    if kind in ("__init__", "toplevel"):
        if mname == "reset":
            return set()
        names = {n for n, (_o, a) in decl.attrs_of(cname).items() if a.init}
        if kind == "__init__":
            key = decl.flag(cname, "key")
            names.discard(key)  # the key is a real (positional) parameter of the constructor
        return names
    a = decl.attr_decl(cname, attr)
    t = a.info
    verb = mname.split("_")[0]
    if kind == "scalar":
        if verb == "reset":
            return set()
        return set(leaf["leaf"]) if t.kind == "spec" else set()
    if verb == "without":
        return set()
    return set(leaf.get(t.elem, set()))


DIRECTED_SRC = """
from typing import Dict, List
from spec_classes import spec_class, Attr

@spec_class
class Inner:
    a: int = 1
    b: str = "b"
    hidden: int = Attr(default=0, init=False)

class PInner(Inner):  # an ordinary (undecorated) subclass of a spec class, used as a nested type
    pass

@spec_class(init_overflow_attr="options")
class Flex:
    size: int = 0

@spec_class(key="k")
class HiddenKey:
    k: str = Attr(default="auto", init=False)   # a key the constructor does not initialise
    v: int = 0

@spec_class
class Outer:
    child: PInner
    kids: List[PInner]
    byname: Dict[str, PInner]
    flex: Flex
    flexes: Dict[str, Flex]
"""


KWARGS_SRC = """
from typing import List
from spec_classes import spec_class

@spec_class(bootstrap=True)
class Call:
    name: str = "f"
    kwargs: dict = {}

@spec_class(bootstrap=True)
class Job:
    retries: int = 3
    label: str = "l"
    flag: bool = True
    tags: List[int] = [1]

@spec_class(bootstrap=True)
class Derived(Job):
    own: int = 5

@spec_class(bootstrap=True)
class Plan:
    call: Call
    calls: List[Call]
    job: Derived
"""


def directed_cases(ctx):
    """
    Nested types outside the generated grammar's Leaf/KLeaf: a plain subclass of a spec class (its init-enabled attributes
    are the nested keywords) and a nested class with an overflow attribute (the helper advertises **options: every
    keyword, in every call of a sequence of calls with different names, reaches the nested constructor).
    """
    ns = cg.exec_module(DIRECTED_SRC, prefix="verif_c17d").__dict__
    Outer, PInner, Flex = ns["Outer"], ns["PInner"], ns["Flex"]
    Outer()  # first use (the module is bootstrapped lazily)
    expect = {"a", "b"}
    for mname in ("with_child", "update_child", "transform_child", "with_kid", "update_kid", "transform_kid", "with_byname_item", "update_byname_item", "transform_byname_item"):
        sig = inspect.signature(getattr(Outer, mname))
        virtual = {p.name for p in sig.parameters.values() if p.kind is p.KEYWORD_ONLY and not p.name.startswith("_")}
        ctx.count("nested_keyword_sets_compared")
        ctx.count("directed_cases")
        if virtual != expect:
            ctx.violation("nested_keywords_match_nested_class", f"Outer.{mname}{sig}: nested-attribute keywords {sorted(virtual)}; the nested class PInner (plain subclass of spec class Inner) has init-enabled attributes {sorted(expect)}",
                          features={"kind": "directed", "nested": "plain_subclass", "verb": mname.split("_")[0]}, case=["directed", mname])
    probes = [
        ("with_child(a=5)", lambda: Outer().with_child(a=5).child, lambda v: type(v) is PInner and (v.a, v.b) == (5, "b")),
        ("update_child(b='z')", lambda: Outer(child=PInner(a=3)).update_child(b="z").child, lambda v: type(v) is PInner and (v.a, v.b) == (3, "z")),
        ("with_kid(a=7)", lambda: Outer().with_kid(a=7).kids, lambda v: len(v) == 1 and type(v[0]) is PInner and v[0].a == 7),
        ("with_byname_item('k', b='q')", lambda: Outer().with_byname_item("k", b="q").byname, lambda v: type(v["k"]) is PInner and v["k"].b == "q"),
        ("transform_child(a=inc)", lambda: Outer(child=PInner(a=3)).transform_child(a=lambda x: x + 1).child, lambda v: v.a == 4),
    ]
    for label, fn, ok in probes:
        ctx.count("behavioural_probes")
        ctx.count("calls_judged")
        ctx.count("directed_cases")
        try:
            got = fn()
            good = ok(got)
        except Exception as e:
            got, good = f"{type(e).__name__}: {e}", False
        if not good:
            ctx.violation("advertised_parameter_reaches_behaviour", f"Outer.{label} (nested type: plain subclass of a spec class) gave {safe_repr(got, 100)}",
                          features={"kind": "directed", "nested": "plain_subclass", "verb": label.split("_")[0]}, case=["directed", label])
    # a key declared init=False is not a constructor parameter: not advertised, and rejected like any other unadvertised name
    HK = ns["HiddenKey"]
    HK.__spec_class__  # (first use: lazily bootstrapped)
    sig = inspect.signature(HK.__init__)
    ctx.count("directed_cases")
    ctx.count("calls_judged")
    if "k" in sig.parameters:
        try:
            got = HK("given").k
        except TypeError:
            got = "TypeError"
        if got != "given":
            ctx.violation("advertised_parameter_reaches_behaviour", f"HiddenKey.__init__{sig} advertises the init=False key `k`, but HiddenKey('given').k -> {got!r}",
                          features={"kind": "directed", "nested": "init_false_key", "verb": "__init__"}, case=["directed", "init_false_key"])
    else:
        for args, kw in ((("given",), {}), ((), {"k": "given"})):
            ctx.count("calls_judged")
            try:
                HK(*args, **kw)
                ctx.violation("unadvertised_rejected", f"HiddenKey.__init__{sig} does not advertise `k`, yet HiddenKey(*{args}, **{kw}) was accepted", features={"kind": "directed", "nested": "init_false_key", "verb": "__init__"}, case=["directed", "init_false_key", list(args)])
            except TypeError:
                pass
    # an init-enabled attribute that happens to be called `kwargs` is advertised, accepted and stored like any other
    ns2 = cg.exec_module(KWARGS_SRC, prefix="verif_c17k").__dict__
    Call, Plan, Derived = ns2["Call"], ns2["Plan"], ns2["Derived"]
    probes2 = [
        ("Call(kwargs={'a': 1})", lambda: Call(kwargs={"a": 1}).kwargs, {"a": 1}),
        ("Call().update(kwargs={'a': 1})", lambda: Call().update(kwargs={"a": 1}).kwargs, {"a": 1}),
        ("Call().transform(kwargs=f)", lambda: Call(kwargs={"a": 1}).transform(kwargs=lambda d: {**d, "b": 2}).kwargs, {"a": 1, "b": 2}),
        ("Plan().with_call(kwargs={'a': 1})", lambda: Plan().with_call(kwargs={"a": 1}).call.kwargs, {"a": 1}),
        ("Plan(call=Call()).update_call(kwargs={'a': 1})", lambda: Plan(call=Call()).update_call(kwargs={"a": 1}).call.kwargs, {"a": 1}),
        ("Plan().with_calls_item(kwargs={'a': 1})", lambda: Plan().with_calls_item(kwargs={"a": 1}).calls[0].kwargs, {"a": 1}),
        # falsy values for attributes a parent spec class owns, given to the subclass constructor / helpers, are values
        ("Derived(retries=0)", lambda: Derived(retries=0).retries, 0),
        ("Derived(label='')", lambda: Derived(label="").label, ""),
        ("Derived(flag=False, retries=0, own=0)", lambda: (lambda d: (d.flag, d.retries, d.own))(Derived(flag=False, retries=0, own=0)), (False, 0, 0)),
        ("Derived(tags=[])", lambda: Derived(tags=[]).tags, []),
        ("Derived().update(retries=0)", lambda: Derived().update(retries=0).retries, 0),
        ("Plan().with_job(retries=0)", lambda: Plan().with_job(retries=0).job.retries, 0),
    ]
    for label, fn, want in probes2:
        ctx.count("behavioural_probes")
        ctx.count("calls_judged")
        ctx.count("directed_cases")
        ctx.count("directed_value_cases")
        try:
            got = fn()
        except Exception as e:
            got = f"{type(e).__name__}: {e}"
        if got != want:
            ctx.violation("advertised_parameter_reaches_behaviour", f"{label} gave {safe_repr(got, 100)}, the value given was {want!r}",
                          features={"kind": "directed", "nested": "kwargs_named_attr" if "kwargs" in label else "falsy_inherited", "verb": label.split("(")[0].split(".")[-1]}, case=["directed_value", label])
    for cls_, mname in ((Call, "__init__"), (Call, "update"), (Call, "transform"), (Plan, "with_call"), (Plan, "update_call"), (Plan, "with_calls_item")):
        ctx.count("directed_cases")
        if "kwargs" not in inspect.signature(getattr(cls_, mname)).parameters:
            ctx.violation("nested_keywords_match_nested_class", f"{cls_.__name__}.{mname}{inspect.signature(getattr(cls_, mname))} does not advertise the init-enabled attribute `kwargs`",
                          features={"kind": "directed", "nested": "kwargs_named_attr", "verb": mname.split("_")[0]}, case=["directed_value_sig", cls_.__name__, mname])
    # overflow keywords: a sequence of calls with *different* keyword names on the same helper
    seqs = [
        [{"colour": "red"}, {"size": 3}, {"size": 4, "shade": 1}, {"colour": "blue", "depth": 2}, {}],
        [{"size": 1}, {"weight": 9}, {"weight": 8, "size": 2}],
    ]
    for si, seq in enumerate(seqs):
        for helper in ("with_flex", "with_flexes_item"):
            # a fresh class per sequence would hide state kept per generated function: the same class is used throughout
            for j, kw in enumerate(seq):
                ctx.count("behavioural_probes")
                ctx.count("calls_judged")
                ctx.count("directed_cases")
                ctx.count("overflow_sequences_steps")
                want = Flex(**kw)
                try:
                    got = Outer().with_flex(**kw).flex if helper == "with_flex" else Outer().with_flexes_item("k", **kw).flexes["k"]
                    good = got == want and set(got.__dict__) == set(want.__dict__)
                except Exception as e:
                    got, good = f"{type(e).__name__}: {e}", False
                if not good:
                    ctx.violation("advertised_parameter_reaches_behaviour", f"Outer.{helper}(**{kw}) as call #{j} of a sequence with different keyword names gave {safe_repr(got, 100)}; the nested constructor gives {safe_repr(want, 100)}",
                                  features={"kind": "directed", "nested": "overflow", "helper": helper, "call_index": min(j, 1)}, case=["directed", helper, si, j])
                    break
    ctx.sig("directed", "plain_subclass_nested", "overflow_sequences")


def run(ctx, params):
    rng = ctx.rng
    if params.get("directed"):
        return directed_cases(ctx)
    for ci in range(params["modules"]):
        decl = cg.gen_module(rng, {"frozen": False, "init_false": True, "props": False})
        if ci % 4 == 1:
            decl.classes[0].overflow = "extras"
            ctx.count("overflow_classes")
        world = cg.World(decl)
        try:
            for cname, cls in world.classes.items():
                inst0 = _blank(world, cname)
                overflow = decl.flag(cname, "overflow")
                if any(not a.init for _o, a in decl.attrs_of(cname).values()):
                    ctx.count("init_false_attrs_seen")
                init_false = [n for n, (_o, a) in decl.attrs_of(cname).items() if not a.init]
                for mname, (kind, attr) in method_names(decl, cname).items():
                    fn = getattr(cls, mname, None)
                    if fn is None or not inspect.isfunction(fn) or "implementation" not in getattr(fn, "__globals__", {}):
                        ctx.violation("generated_method_present", f"{cname}.{mname} is missing or is not a generated wrapper: {safe_repr(fn, 80)}", features={"kind": kind}, case=[ci, cname, mname])
                        continue
                    ctx.count("methods_checked")
                    ctx.count(f"kind:{kind}")
                    sig = inspect.signature(fn)
                    params_ = [p for p in sig.parameters.values() if p.name != "self"]
                    has_var_kw = any(p.kind is p.VAR_KEYWORD for p in params_)
                    named = [p for p in params_ if p.kind in (p.POSITIONAL_OR_KEYWORD, p.KEYWORD_ONLY)]
                    required = [p for p in named if p.default is p.empty]
                    real = set(inspect.signature(fn, follow_wrapped=False).parameters) if False else set(fn.__code__.co_varnames[: fn.__code__.co_argcount + fn.__code__.co_kwonlyargcount])
                    t = cg.BY_NAME.get(attr) if attr else None
                    base_feats = {"method_kind": kind, "verb": mname.split("_")[0] if kind != "__init__" else "__init__", "attr_kind": t.kind if t else None, "elem": t.elem if t else None, "cls_kind": "sub" if decl.cls(cname).base else "base"}
                    spy = Spy()
                    original = fn.__globals__["implementation"]
                    fn.__globals__["implementation"] = spy
                    try:
                        def call(pos, kw, mode, expect_accept, watch=None):
                            """One judged call. watch: {param name: sentinel} that the spy must see."""
                            spy.calls.clear()
                            before = dict(inst0.__dict__)
                            try:
                                fn(inst0, *pos, **kw)
                                raised = None
                            except TypeError as e:
                                raised = e
                            except Exception as e:  # noqa
                                raised = e
                            ctx.count("calls_judged")
                            ctx.count(f"mode:{mode}")
                            pclass = sorted({"real" if n in real else "virtual" for n in (watch or {})}) or ["-"]
                            ctx.sig(kind, base_feats["verb"], base_feats["attr_kind"], base_feats["elem"], mode, tuple(pclass), expect_accept)
                            feats = dict(base_feats, mode=mode, param_class=pclass)
                            label = f"{cname}.{mname}{sig}"
                            if expect_accept:
                                if raised is not None:
                                    ctx.violation("advertised_parameter_accepted", f"{label}: call with positional={len(pos)} keywords={sorted(kw)} ({mode}) raised {type(raised).__name__}: {raised}", features=feats, case=[ci, cname, mname, mode, sorted(kw)])
                                    return
                                if len(spy.calls) != 1:
                                    ctx.violation("advertised_parameter_accepted", f"{label}: implementation invoked {len(spy.calls)} times for one call", features=feats, case=[ci, cname, mname, mode, sorted(kw)])
                                    return
                                seen = spy.calls[0][1]
                                for name, sentinel in (watch or {}).items():
                                    if seen.get(name, "<absent>") is not sentinel:
                                        ctx.violation("value_reaches_implementation", f"{label}: {name} was given {safe_repr(sentinel, 30)} but the implementation received {safe_repr(seen.get(name, '<absent>'), 40)} ({mode})", features=dict(feats, param=("real" if name in real else "virtual")), case=[ci, cname, mname, mode, name])
                            else:
                                if raised is None or not isinstance(raised, TypeError):
                                    ctx.violation("unadvertised_rejected", f"{label}: call with positional={len(pos)} keywords={sorted(kw)} ({mode}) should raise TypeError but {('raised ' + type(raised).__name__) if raised else 'was accepted'}", features=feats, case=[ci, cname, mname, mode, sorted(kw)])
                                elif spy.calls:
                                    ctx.violation("unadvertised_rejected", f"{label}: TypeError raised but the implementation had already been invoked", features=feats, case=[ci, cname, mname, mode, sorted(kw)])
                                elif dict(inst0.__dict__) != before:
                                    ctx.violation("unadvertised_rejected", f"{label}: rejected call changed the instance", features=feats, case=[ci, cname, mname, mode, sorted(kw)])

                        req_kw = {p.name: object() for p in required}
                        # (a) single parameters, (b) kinds
                        for p in named:
                            s = object()
                            kw = dict(req_kw)
                            kw[p.name] = s
                            call([], kw, "single", True, {p.name: s})
                        pos_params = [p for p in params_ if p.kind is p.POSITIONAL_OR_KEYWORD]
                        if pos_params:
                            vals = [object() for _ in pos_params]
                            rest = {p.name: v for p, v in req_kw.items() if False}
                            kw = {p.name: object() for p in required if p.kind is p.KEYWORD_ONLY}
                            call(vals, kw, "positional", True, {p.name: v for p, v in zip(pos_params, vals)})
                        kwonly = [p for p in params_ if p.kind is p.KEYWORD_ONLY]
                        if kwonly and not any(p.kind is p.VAR_POSITIONAL for p in params_):
                            vals = [object() for _ in pos_params] + [object()]
                            call(vals, {p.name: object() for p in required if p.kind is p.KEYWORD_ONLY}, "kwonly_positional_rejected", False)
                        # (c) defaults of real parameters
                        spy.calls.clear()
                        try:
                            fn(inst0, **req_kw)
                            ok = len(spy.calls) == 1
                        except Exception as e:
                            ok = False
                            ctx.violation("advertised_parameter_accepted", f"{cname}.{mname}{sig}: call with only the required parameters raised {type(e).__name__}: {e}", features=dict(base_feats, mode="default"), case=[ci, cname, mname, "default"])
                        if ok:
                            seen = spy.calls[0][1]
                            for p in named:
                                if p.name in real and p.default is not p.empty and p.name not in req_kw:
                                    ctx.count("calls_judged")
                                    ctx.count("mode:default")
                                    got = seen.get(p.name, "<absent>")
                                    if not (got is p.default or (isinstance(p.default, (bool, int, str, type(None))) and got == p.default and type(got) is type(p.default))):
                                        ctx.violation("advertised_default_used", f"{cname}.{mname}{sig}: omitted {p.name} reached the implementation as {safe_repr(got, 40)}, advertised default {safe_repr(p.default, 40)}", features=dict(base_feats, mode="default"), case=[ci, cname, mname, "default", p.name])
                            leaked = [k for k in seen if k not in real and k != "self" and k not in req_kw]
                            if leaked:
                                ctx.violation("advertised_default_used", f"{cname}.{mname}{sig}: virtual keywords {leaked} were passed to the implementation although the caller omitted them", features=dict(base_feats, mode="default"), case=[ci, cname, mname, "default-leak"])
                        # pairs
                        pairs = list(itertools.combinations([p for p in named if p.name not in req_kw], 2))
                        if len(pairs) > params["pairs_per_method"]:
                            pairs = rng.sample(pairs, params["pairs_per_method"])
                        for p1, p2 in pairs:
                            s1, s2 = object(), object()
                            kw = dict(req_kw)
                            kw.update({p1.name: s1, p2.name: s2})
                            call([], kw, "pair", True, {p1.name: s1, p2.name: s2})
                        # (d) unadvertised names
                        if not has_var_kw:
                            advertised = {p.name for p in params_}
                            bad = [u for u in UNADVERTISED + init_false if u not in advertised]
                            other_attrs = [n for n in cg.BY_NAME if n not in advertised][:3]
                            for u in bad + other_attrs:
                                kw = dict(req_kw)
                                kw[u] = object()
                                call([], kw, "unadvertised", False)
                            # an unadvertised keyword stays an error when the call is disabled with _if=False
                            if "_if" in advertised:
                                kw = dict(req_kw)
                                kw.update({"_if": False, "no_such_attribute": object()})
                                call([], kw, "unadvertised_if_false", False)
                        # (e) nested-attribute keywords
                        exp = expected_nested_keywords(decl, cname, mname, kind, attr)
                        if exp is not None:
                            ctx.count("nested_keyword_sets_compared")
                            virtual = {p.name for p in named if p.name not in real}
                            if kind == "__init__":
                                virtual = {p.name for p in named if p.kind is p.KEYWORD_ONLY}
                            exp_cmp = set(exp) - ({overflow} if overflow else set())
                            if virtual != exp_cmp:
                                ctx.violation("nested_keywords_match_declaration", f"{cname}.{mname}{sig}: advertises nested-attribute keywords {sorted(virtual)}, the declaration gives {sorted(exp_cmp)}",
                                              features=dict(base_feats, missing=sorted(exp_cmp - virtual)[:3], extra=sorted(virtual - exp_cmp)[:3]), case=[ci, cname, mname, "nested"])
                    finally:
                        fn.__globals__["implementation"] = original
                behavioural_probes(ctx, world, decl, cname, [ci, cname])
                if ci % 25 == 0:
                    ctx.sample({"class": cname, "example_signature": f"{cname}.update{inspect.signature(getattr(cls, 'update'))}"[:300], "methods": len(method_names(decl, cname))})
        finally:
            world.close()


def behavioural_probes(ctx, world, decl, cname, case):
    """
    Without the spy: callables passed for `_transform` *and* for nested-attribute keywords in one call must both reach the
    underlying behaviour (each recorder is invoked), on the top-level transform and on transform_<spec attribute>.
    """
    from vlib import driver as dr

    cls = world.classes[cname]
    attrs = decl.attrs_of(cname)
    kw = dr.required_ctor_kwargs(world, cname, __import__("random").Random(0))
    try:
        inst = cls(**{k: world.build(r) for k, r in kw.items()})
    except Exception:
        return
    calls = []

    def rec(tag, fn=lambda v: v):
        def f(v):
            calls.append(tag)
            return fn(v)
        return f

    probes = []
    present = [n for n in attrs if n in inst.__dict__ and attrs[n][1].init]
    if present:
        n0 = present[0]
        probes.append(("transform", lambda n0=n0: inst.transform(rec("_transform"), **{n0: rec(n0)}), ["_transform", n0]))
    for n, (_o, a) in attrs.items():
        if a.info.kind == "spec" and n in inst.__dict__ and "v" in inst.__dict__[n].__dict__:
            probes.append((f"transform_{n}", lambda n=n: getattr(inst, f"transform_{n}")(rec("_transform"), v=rec("v")), ["_transform", "v"]))
        if a.info.kind == "list" and a.info.elem in ("leaf", "kleaf") and len(inst.__dict__.get(n, [])) > 0:
            probes.append((f"transform_{a.info.singular}", lambda n=n, a=a: getattr(inst, f"transform_{a.info.singular}")(0, rec("_transform"), _by_index=True, v=rec("v")), ["_transform", "v"]))
    # flag parameters reach the behaviour with the value given: _by_index / _insert / _inplace / _if on a List[str] attribute
    if "names" in attrs:
        base = cls(**{k: world.build(r) for k, r in kw.items()})
        object.__getattribute__(base, "__dict__")["names"] = ["P", "Q"]
        Z = cg.model_prepare(decl.item_preparer_of(cname, "names"), "Z")  # (the class's item preparer applies to the new element)
        checks = [
            ("_by_index=True", lambda: base.without_name(0, _by_index=True).names, ["Q"]),
            ("_by_index=False", lambda: base.without_name(0, _by_index=False).names, ValueError),
            ("_insert=True", lambda: base.with_name("Z", _index=0, _insert=True).names, [Z, "P", "Q"]),
            ("_insert=False", lambda: base.with_name("Z", _index=0, _insert=False).names, [Z, "Q"]),
            ("_if=False", lambda: base.with_name("Z", _if=False) is base, True),
            ("_inplace=False", lambda: base.with_name("Z") is base, False),
        ]
        for label, fn, want in checks:
            ctx.count("behavioural_probes")
            ctx.count("calls_judged")
            try:
                got = fn()
            except Exception as e:
                got = type(e)
            ok = (got is want) if isinstance(want, type) else (got == want)
            ctx.sig("behavioural_flag", label, ok)
            if not ok:
                ctx.violation("advertised_parameter_reaches_behaviour", f"{cname}: element helper on names=['P', 'Q'] with {label}: got {got!r}, expected {want!r}",
                              features={"method": "element", "mode": "behavioural_flag", "flag": label.split("=")[0]}, case=case + [label])
    # the pair (new value, nested-attribute keyword) with the new value given as UNCHANGED: the keyword still applies
    from spec_classes import UNCHANGED

    for n, (_o, a) in attrs.items():
        pairs = []
        if a.info.kind == "spec" and a.init and n in inst.__dict__ and "v" in inst.__dict__[n].__dict__:
            pairs += [(f"{verb}_{n}(UNCHANGED, v=41)", lambda verb=verb, n=n: getattr(getattr(inst, f"{verb}_{n}")(UNCHANGED, v=41), n).v) for verb in ("update", "with")]
        if a.info.kind == "list" and a.info.elem in ("leaf", "kleaf") and len(inst.__dict__.get(n, [])) > 0 and "v" in inst.__dict__[n][0].__dict__:
            sg = a.info.singular
            pairs.append((f"update_{sg}(0, UNCHANGED, v=41)", lambda n=n, sg=sg: getattr(getattr(inst, f"update_{sg}")(0, UNCHANGED, _by_index=True, v=41), n)[0].v))
        for label, fn in pairs:
            ctx.count("behavioural_probes")
            ctx.count("unchanged_with_keyword_probes")
            ctx.count("calls_judged")
            try:
                got = fn()
            except Exception as e:
                got = f"raised {type(e).__name__}: {e}"
            ctx.sig("behavioural_unchanged", label.split("(")[0].split("_")[0], got == 41)
            if got != 41:
                ctx.violation("advertised_parameter_reaches_behaviour", f"{cname}.{label}: the nested v is {got!r} afterwards, the keyword given was 41",
                              features={"method": label.split("_")[0], "mode": "behavioural_unchanged"}, case=case + [label])
    for label, fn, expected in probes:
        calls.clear()
        ctx.count("behavioural_probes")
        ctx.count("calls_judged")
        try:
            fn()
        except Exception as e:
            ctx.violation("advertised_parameter_reaches_behaviour", f"{cname}.{label} with _transform and a nested transform keyword raised {type(e).__name__}: {e}", features={"method": label.split("_")[0], "mode": "behavioural"}, case=case + [label])
            continue
        ctx.sig("behavioural", label.split("_")[0], tuple(sorted(set(calls))))
        missing = [t for t in expected if t not in calls]
        if missing:
            ctx.violation("advertised_parameter_reaches_behaviour", f"{cname}.{label}(_transform, **nested transforms): the callables given for {missing} were never invoked (invoked: {calls})",
                          features={"method": label.split("_")[0], "mode": "behavioural", "dropped": ["real" if m == "_transform" else "virtual" for m in missing]}, case=case + [label])


def _blank(world, cname):
    cls = world.classes[cname]
    cls.__spec_class__  # bootstrap
    return object.__new__(cls)


def plan(tier, seed):
    if tier == "quick":
        return [{"directed": True}] + [{"shard": i, "modules": 8, "pairs_per_method": 6} for i in range(15)]
    return [{"directed": True}] + [{"shard": i, "modules": 120, "pairs_per_method": 40} for i in range(31)]
