"""
C20 monitor 3: 2 and 3 threads each deep-copying module-bearing values under the deterministic scheduler, with
preemption points on every executed line of the copy-protection code (spec_classes/utils/mutation.py).
Every thread must succeed and, once all threads are done, copyreg.dispatch_table must equal the baseline and the
protection bookkeeping must be idle.
"""

from __future__ import annotations

import copy
import copyreg
import itertools
import json as json_mod
import math
import types

from vlib import classgen as cg
from vlib import sched as vsched
from vlib.core import REPO_ROOT, safe_repr


def workloads(ns, name, nthreads):
    In, Out = ns["In"], ns["Out"]
    from spec_classes.utils.mutation import protect_via_deepcopy

    flat = lambda: protect_via_deepcopy([math, {"k": json_mod}, [1, 2]])  # noqa: E731
    o = Out(i=In(m=math), items=[{"k": [In(m=json_mod)]}], table={"a": [In(m=math), math]})
    nested = lambda: copy.deepcopy(o)  # noqa: E731
    helper = lambda: o.with_i(In(m=json_mod))  # noqa: E731
    construct = lambda: Out(i=In(m=json_mod), items=[math])  # noqa: E731
    table = {
        "flat": [flat] * 3,
        "nested": [nested] * 3,
        "helper": [helper, nested, helper],
        "construct": [construct, construct, nested],
        "mixed": [flat, nested, helper],
    }
    return table[name][:nthreads]


def run_schedules(ctx, params):
    from checks.c20 import MODULE_SRC, TableMonitor, set_precondition

    rng = ctx.rng
    pristine = dict(copyreg.dispatch_table)
    mon = TableMonitor(ctx)  # not installed: depth tracking would add non-library frames; only the quiescent comparison is used
    ns = cg.exec_module(MODULE_SRC, prefix="verif_c20s").__dict__
    S = vsched.Scheduler(REPO_ROOT)
    vsched.install_coop_locks(S)
    wname, nthreads = params["workload"], params["threads"]
    fns = workloads(ns, wname, nthreads)
    for f in fns:  # warm up single-threaded (imports, lazy bootstrap, method descriptors)
        f()
    baseline = set_precondition("clean", pristine)
    mon.reset_library_state()
    only = ["utils/mutation.py"]
    base = S.run(fns, record_lines=True, only_files=only, strings_too=False)
    steps = base.steps
    ctx.notes[f"steps_per_thread[{wname}/{nthreads}]"] = steps
    seen_traces = set()

    def one(directives, first, kind, pct=None):
        mon.reset_library_state()
        for k in list(copyreg.dispatch_table):
            if k not in baseline:
                del copyreg.dispatch_table[k]
        r = S.run(fns, directives=directives, first=first, pct=pct, only_files=only, strings_too=False, watchdog=20.0)
        ctx.count("schedules_run")
        if r.timed_out:
            ctx.count("schedules_timed_out")
            if ctx.counters["schedules_timed_out"] > 3:
                # a thread is parked somewhere the scheduler cannot see: no verdict, and no point in waiting out every schedule
                raise RuntimeError("scheduler: more than 3 schedules ran into the wall-clock watchdog (inconclusive)")
            return
        tl = r.trace_lines()
        if tl not in seen_traces:
            seen_traces.add(tl)
            ctx.count("schedules_distinct_traces")
        npre = len([t for t in r.trace if t[2] != "lock-wait"])
        ctx.sig("sched", wname, nthreads, kind, tuple(x[1] for x in tl)[:4], tuple(o[0] for o in r.outcomes))
        feats = {"phase": "schedule", "workload": wname, "threads": nthreads, "schedule_kind": kind, "preemptions": npre, "deadlock": r.deadlock}
        case = ["sched", wname, nthreads, kind, [list(d) for d in (directives or [])], first, pct]
        failed = [(i, o[1]) for i, o in enumerate(r.outcomes) if o[0] != "returned"]
        ctx.count("schedule_threads_succeeded", nthreads - len(failed))
        if r.deadlock:
            ctx.violation("threads_complete", f"[{wname} x{nthreads}] schedule {r.trace} deadlocked", features=feats, case=case)
        elif failed:
            i, e = failed[0]
            ctx.violation(
                "concurrent_copy_succeeds",
                f"[{wname} x{nthreads}] under schedule {[(a, c, d) for a, _b, c, d in r.trace]} thread {i} failed: {type(e).__name__}: {safe_repr(e, 120)}",
                features=dict(feats, exc=type(e).__name__), case=case,
            )
        mon.check(baseline, f"[{wname} x{nthreads}] all threads finished under schedule {[(a, c, d) for a, _b, c, d in r.trace]}", feats, case)

    # no preemption, each thread first
    for first in range(nthreads):
        one([], first, "sequential")
    # exhaustive single preemption at every dynamic step of every thread
    for t in range(nthreads):
        for s in range(steps[t]):
            one([(t, s, (t + 1) % nthreads)], t, "1-preemption")
    # two preemptions
    pairs = []
    for a, b in itertools.permutations(range(nthreads), 2):
        for s1 in range(steps[a]):
            for s2 in range(steps[b]):
                pairs.append((a, s1, b, s2))
    budget = params["two_preempt_budget"]
    if len(pairs) > budget:
        pairs = rng.sample(pairs, budget)
        ctx.notes["two_preemption_sampled"] = True
    for a, s1, b, s2 in pairs:
        c = a if nthreads == 2 else next(x for x in range(nthreads) if x not in (a, b))
        one([(a, s1, b), (b, s2, c)], a, "2-preemptions")
    # PCT-style random priorities beyond the bound
    total = sum(steps)
    for _ in range(params["pct"]):
        pr = list(range(nthreads))
        rng.shuffle(pr)
        cps = sorted(rng.sample(range(1, max(2, total)), min(3, max(1, total - 1))))
        one(None, 0, "pct", pct={"priorities": pr, "change_points": cps})
    ctx.sample({"workload": wname, "threads": nthreads, "steps_per_thread": steps, "lines_of_thread0": [f"{f}:{l}" for f, l, _n in base.lines[0][:12]], "distinct_traces": len(seen_traces)})
    set_precondition("clean", pristine)
