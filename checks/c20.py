"""
C20 - copying leaves process-global state untouched and is safe across threads.

Monitor 1 (histories, quiescent points): baseline = dict(copyreg.dispatch_table) taken in a fresh worker before
the library copies anything; after every operation of every history (no copy in flight: enter/exit depth of the
copy-protection context manager is tracked and must be 0) the table must hold exactly the baseline entries
(same keys, identical values) - also with a pre-existing user entry for a user class or for ModuleType itself.
Monitor 2 (crash points): executed library lines as abort points during copying operations, then the same
quiescent check. Monitor 3 (schedules): see run_schedules (threads deep-copying module-bearing values under the
deterministic scheduler).
"""

from __future__ import annotations

import contextlib
import copy
import copyreg
import math
import os
import json as json_mod
import types

from vlib import classgen as cg
from vlib import driver as dr
from vlib import faults
from vlib.core import REPO_ROOT, safe_repr

PROP = "C20"
LEVEL = "exploration"
EVAL_COUNTER = "quiescent_checks"
RULE = (
    "histories of copying operations (constructors with mutable / nested spec defaults, copy-on-write helpers, deepcopy of "
    "instances nested in containers to depth 3, reset, module-valued attributes at several depths) on hand-written module-bearing "
    "classes and on grammar-generated classes, under three table preconditions (clean, user entry for a user class, user entry for "
    "ModuleType); executed library lines as abort points; 2- and 3-thread schedules of module-bearing deep copies under the "
    "deterministic scheduler; distinct by (precondition, operation kind/form, nesting depth, outcome, fault location / schedule class)"
)
ASSUMPTIONS = [
    "the dispatch table is compared at quiescent points only (no copy in flight)",
    "line failpoints abort at statement starts; thread preemption is at line granularity (any schedule produced is a real one)",
]

MODULE_SRC = '''
import math, json
from typing import Any, Dict, List
from spec_classes import spec_class, Attr

@spec_class
class In:
    m: Any = None
    data: List[int] = [1, 2]

@spec_class
class Out:
    i: In = In()
    items: List[Any] = []
    table: Dict[str, Any] = {}
    mod: Any = math
    j: In = Attr(default_factory=lambda: In(m=json))
'''


ATTR_DEFAULT_SRC = """
import math
from spec_classes import spec_class, Attr

@spec_class
class AD:
    xs: list = Attr(default=[math])       # the declaration itself holds a module; copied when the class is first used
    ys: list = Attr(default_factory=lambda: [math])
"""


def first_use_of_attr_default():
    import sys

    mod = cg.exec_module(ATTR_DEFAULT_SRC, prefix="verif_c20ad")
    try:
        return mod.__dict__["AD"]()
    finally:
        sys.modules.pop(mod.__name__, None)


def GATES(tier):
    return [("quiescent_checks", 500), ("ops_with_copy_protection|protection_tracking_unavailable", 1), ("max_protection_depth_ge2|protection_tracking_unavailable", 1), ("line_failpoints_run", 100),
            ("pre:clean", 50), ("pre:user_class_entry", 50), ("pre:module_entry", 50), ("schedules_run", 100), ("schedules_distinct_traces", 30), ("schedule_threads_succeeded", 200)]


class TableMonitor:
    def __init__(self, ctx):
        self.ctx = ctx
        self.depth = 0
        self.max_depth = 0
        self.entered = 0
        self.installed = False
        self.tracking = True

    def install(self):
        from spec_classes.utils import mutation

        cls = mutation._modules_copyable
        if getattr(cls, "_verif_wrapped", False):
            return
        if not (isinstance(cls, type) and hasattr(cls, "__enter__") and hasattr(cls, "__exit__")):
            # the protection is organised differently (e.g. a generator-based context manager): depth tracking is an
            # auxiliary observation only, the table comparison below does not depend on it
            self.ctx.count("protection_tracking_unavailable")
            self.tracking = False
            return
        orig_enter, orig_exit = cls.__enter__, cls.__exit__
        mon = self

        def __enter__(self_):
            r = orig_enter(self_)
            mon.depth += 1
            mon.entered += 1
            mon.max_depth = max(mon.max_depth, mon.depth)
            return r

        def __exit__(self_, *a):
            mon.depth -= 1
            return orig_exit(self_, *a)

        cls.__enter__, cls.__exit__ = __enter__, __exit__
        cls._verif_wrapped = True
        self._cls, self._orig, self._wrapped = cls, (orig_enter, orig_exit), (__enter__, __exit__)

    @contextlib.contextmanager
    def suspended(self):
        """Run the block on the library's own __enter__ / __exit__: the depth-tracking wrappers cost a stack frame each, which
        matters to workloads that exhaust the stack (the table comparison does not depend on them)."""
        if not getattr(self, "_cls", None):
            yield
            return
        import threading

        self._cls.__enter__, self._cls.__exit__ = self._orig
        # (likewise the cooperative lock the worker hands to library code: a real lock is taken without a Python frame)
        inst = getattr(self._cls, "__instance__", None)
        coop = getattr(inst, "lock", None)
        if coop is not None and hasattr(threading, "_verif_real_rlock"):
            inst.lock = threading._verif_real_rlock()
        try:
            yield
        finally:
            self._cls.__enter__, self._cls.__exit__ = self._wrapped
            if coop is not None:
                inst.lock = coop

    def check(self, baseline, what, features, case, **details):
        """Quiescent-point comparison of copyreg.dispatch_table with the baseline."""
        self.ctx.count("quiescent_checks")
        table = copyreg.dispatch_table
        problems = []
        if self.depth != 0:
            problems.append(f"copy-protection depth is {self.depth} at a quiescent point")
            self.depth = 0
        from spec_classes.utils import mutation

        inst = getattr(mutation._modules_copyable, "__instance__", None)
        if inst is not None and (getattr(inst, "refcount", 0) != 0 or getattr(inst, "patched_table", False)):
            # auxiliary invariant: with no copy in flight the protection state must be idle, otherwise the *next*
            # copy leaks or loses the table entry (observable one operation later)
            problems.append(f"bookkeeping not idle (refcount={inst.refcount}, patched_table={inst.patched_table})")
        for k in table:
            if k not in baseline:
                problems.append(f"extra entry {k!r}")
        for k, v in baseline.items():
            if k not in table:
                problems.append(f"lost entry {k!r}")
            elif table[k] is not v:
                problems.append(f"entry {k!r} replaced")
        if problems:
            self.ctx.violation(
                "dispatch_table_restored",
                f"after {what}: copyreg.dispatch_table differs from the baseline: {problems[:3]}",
                features=dict(features, problem=sorted({p.split()[0] for p in problems}), module_entry_leaked=types.ModuleType in table and types.ModuleType not in baseline),
                case=case, **details,
            )
            # restore so that one leak is not reported after every later operation
            for k in list(table):
                if k not in baseline:
                    del table[k]
            for k, v in baseline.items():
                table[k] = v
            self.reset_library_state()
            return False
        return True

    def reset_library_state(self):
        from spec_classes.utils import mutation

        inst = getattr(mutation._modules_copyable, "__instance__", None)
        if inst is not None:
            inst.refcount = 0
            inst.patched_table = False


class UserThing:
    def __init__(self, v=0):
        self.v = v


def _reduce_user(o):
    return (UserThing, (o.v,))


def _reduce_module(m):
    return m.__name__


def set_precondition(pre, pristine):
    table = copyreg.dispatch_table
    for k in list(table):
        if k not in pristine:
            del table[k]
    for k, v in pristine.items():
        table[k] = v
    if pre == "user_class_entry":
        table[UserThing] = _reduce_user
    elif pre == "module_entry":
        table[types.ModuleType] = _reduce_module
    return dict(table)


def handwritten_ops(ns, rng):
    """(label, depth, callable) copying operations on the module-bearing classes."""
    In, Out = ns["In"], ns["Out"]
    o = Out(i=In(m=math), items=[{"k": [In(m=json_mod)]}], table={"a": [In(m=math), math]})
    deep3 = {"lvl1": [{"lvl2": Out(i=In(m=math), items=[math])}]}
    return [
        ("construct:defaults", 1, lambda: Out()),
        ("construct:first_use_attr_default_module", 1, first_use_of_attr_default),
        ("construct:nested_arg", 2, lambda: Out(i=In(m=json_mod))),
        ("construct:module_arg", 1, lambda: Out(mod=json_mod, items=[math, [json_mod]])),
        ("with:nested", 2, lambda: o.with_i(In(m=math))),
        ("with:kwargs", 2, lambda: o.with_i(m=json_mod)),
        ("update_attr", 2, lambda: o.update_i(data=[3])),
        ("with_item:module", 1, lambda: o.with_item(math)),
        ("with_item:nested3", 3, lambda: o.with_item({"k": [In(m=math)]})),
        ("transform_attr", 2, lambda: o.transform_items(lambda v: list(v) + [json_mod])),
        ("update", 2, lambda: o.update(mod=json_mod, i=In(m=math))),
        ("reset_attr", 1, lambda: o.reset_i()),
        ("reset", 1, lambda: o.reset()),
        ("deepcopy:instance", 2, lambda: copy.deepcopy(o)),
        ("deepcopy:depth3", 3, lambda: copy.deepcopy(deep3)),
        ("deepcopy:list_of_instances", 2, lambda: copy.deepcopy([o, o, In(m=math)])),
        ("inplace:with", 1, lambda: Out().with_i(In(m=math), _inplace=True)),
        ("setattr", 1, lambda: setattr(Out(), "i", In(m=json_mod))),
        ("delattr", 1, lambda: delattr(Out(i=In(m=math)), "i")),
        ("raising_copy", 2, lambda: o.transform_i(lambda v: (_ for _ in ()).throw(ValueError("user callback raised during helper")))),
        ("raising_nonconf", 1, lambda: o.with_i(5)),
        # a copy that fails for want of stack (no fault injected), started from several stack depths: the protection is
        # released on the way out with hardly any stack left
        ("raising_stack_exhaustion", 3, lambda: _exhaust_stack(In)),
    ]


def _before_release(fired_at):
    """Is the statement at which the fault was injected one of those __exit__ executes before its release has begun
    (taking the lock, reading the count, entering the try block)? Decided on the statement's text, not its position."""
    import linecache

    text = linecache.getline(os.path.join(os.path.realpath(REPO_ROOT), "spec_classes", fired_at[0]), fired_at[1]).strip()
    return text in ("with self.lock:", "refcount = self.refcount - 1", "try:")


def _exhaust_stack(In):
    import sys

    chain = In(m=math)
    for _ in range(sys.getrecursionlimit()):  # linked by hand: the constructor would copy (and fail) on the way
        nxt = In()
        nxt.__dict__["m"] = chain
        chain = nxt

    def at_depth(k):
        if k:
            return at_depth(k - 1)
        return copy.deepcopy(chain)

    failed = None
    for k in range(7):
        try:
            at_depth(k)
        except RecursionError as e:
            failed = e
    if failed is not None:
        raise failed


def run_histories(ctx, params):
    rng = ctx.rng
    pristine = dict(copyreg.dispatch_table)
    mon = TableMonitor(ctx)
    mon.install()
    fp = faults.LineFailpoints(REPO_ROOT)
    ns = cg.exec_module(MODULE_SRC, prefix="verif_c20").__dict__
    for pre in ("clean", "user_class_entry", "module_entry"):
        baseline = set_precondition(pre, pristine)
        mon.reset_library_state()
        # --- hand-written module-bearing workload -------------------------------------------------
        for rep in range(params["reps"]):
            ops = handwritten_ops(ns, rng)
            rng.shuffle(ops)
            for label, depth, fn in ops:
                before = mon.entered
                try:
                    if label == "raising_stack_exhaustion":
                        with mon.suspended():
                            fn()
                    else:
                        fn()
                    outcome = "returned"
                except Exception as e:
                    outcome = f"raised:{type(e).__name__}"
                    if not label.startswith("raising_"):
                        ctx.violation("module_bearing_operation_succeeds", f"{label} [{pre}] raised {type(e).__name__}: {safe_repr(e, 120)} - values that contain modules are copied like any others",
                                      features={"pre": pre, "op": label, "phase": "plain", "exc": type(e).__name__}, case=[pre, label, rep])
                if mon.entered > before:
                    ctx.count("ops_with_copy_protection")
                ctx.count(f"pre:{pre}")
                ctx.sig(pre, label, depth, outcome)
                mon.check(baseline, f"{label} [{pre}]", {"pre": pre, "op": label, "depth": depth, "outcome": outcome, "phase": "plain"}, [pre, label, rep])
        # --- crash points on the hand-written workload ----------------------------------------------
        for label, depth, fn in handwritten_ops(ns, rng):
            if label == "raising_stack_exhaustion":
                continue  # (thousands of frames under line events: judged in the plain phase only)
            with fp.session():
                try:
                    fn()
                except Exception:
                    pass
            nlines = fp.count
            budget = params["lines_per_op"]
            points = range(nlines) if nlines <= budget else sorted(rng.sample(range(nlines), budget))
            for n in points:
                ops2 = dict((l, f) for l, _d, f in handwritten_ops(ns, rng))
                with fp.session(arm_at=n):
                    try:
                        ops2[label]()
                        outcome = "returned"
                    except BaseException as e:  # noqa
                        outcome = f"raised:{type(e).__name__}"
                ctx.count("line_failpoints_run")
                if not fp.fired:
                    continue
                where = f"{fp.fired_at[0]}:{fp.fired_at[2]}"
                ctx.count("line_failpoints_fired")
                ctx.sig(pre, "linefault", label, where, outcome)
                mon.check(baseline, f"{label} aborted at library line event #{n} ({where}:{fp.fired_at[1]}) [{pre}]",
                          {"pre": pre, "op": label, "depth": depth, "outcome": outcome, "phase": "line_failpoint", "fault_at": where,
                           "fault_in_protection_bookkeeping": fp.fired_at[2] in ("__enter__", "__exit__", "__new__", "__init__", "_release_to") and fp.fired_at[0].endswith("mutation.py"),
                           # statements of __exit__ that run before the release has begun (offset from the `def` line):
                           "fault_before_release_begins": fp.fired_at[2] == "__exit__" and fp.fired_at[0].endswith("mutation.py") and _before_release(fp.fired_at)},
                          [pre, label, "line", n])
        # --- grammar-generated histories ---------------------------------------------------------------
        for ci in range(params["gen_cases"]):
            decl = cg.gen_module(rng, {"frozen": False})
            world = cg.World(decl)
            try:
                insts, history = [], []
                for step_i in range(params["gen_ops"]):
                    op = dr.gen_construct(world, rng) if len(insts) < 2 else dr.gen_state_op(world, rng, insts)
                    before = mon.entered
                    st = dr.apply_and_register(world, insts, op, scopes=(), saturate=False)
                    if mon.entered > before:
                        ctx.count("ops_with_copy_protection")
                    history.append(op)
                    ctx.count(f"pre:{pre}")
                    ctx.sig(pre, "gen", op.get("hkind", op["kind"]), op.get("form"), st.outcome)
                    mon.check(baseline, f"{dr.op_src(op)} [{pre}]", {"pre": pre, "op": op.get("hkind", op["kind"]), "outcome": st.outcome, "phase": "generated"},
                              [pre, "gen", ci, step_i], history=dr.describe_history(history[-5:]))
            finally:
                world.close()
    if mon.max_depth >= 2:
        ctx.count("max_protection_depth_ge2")
    ctx.notes["max_copy_protection_depth_seen"] = mon.max_depth
    ctx.sample({"preconditions": ["clean", "user_class_entry", "module_entry"], "handwritten_ops": [l for l, _d, _f in handwritten_ops(ns, rng)], "baseline_size": len(pristine)})
    set_precondition("clean", pristine)


ZERO_GATES = ["schedules_timed_out"]


def run(ctx, params):
    if params["mode"] == "histories":
        return run_histories(ctx, params)
    from checks import c20_sched

    return c20_sched.run_schedules(ctx, params)


def plan(tier, seed):
    if tier == "quick":
        return [{"mode": "histories", "reps": 3, "lines_per_op": 60, "gen_cases": 12, "gen_ops": 10, "shard": i} for i in range(4)] + [
            {"mode": "sched", "workload": w, "threads": n, "two_preempt_budget": 400, "pct": 60, "shard": i}
            for i, (w, n) in enumerate([("flat", 2), ("nested", 2), ("mixed", 2), ("helper", 2), ("nested", 3), ("mixed", 3)])
        ]
    return [{"mode": "histories", "reps": 20, "lines_per_op": 2000, "gen_cases": 150, "gen_ops": 12, "shard": i} for i in range(16)] + [
        {"mode": "sched", "workload": w, "threads": n, "two_preempt_budget": 20000, "pct": 3000, "shard": i}
        for i, (w, n) in enumerate([("flat", 2), ("nested", 2), ("mixed", 2), ("helper", 2), ("construct", 2), ("nested", 3), ("mixed", 3), ("helper", 3), ("flat", 3)])
    ]
