"""
C08 - instances share no mutable state with defaults, constructor arguments or peers;
reset / delete restore a fresh default.

Monitors:
 (a) isolation: around every in-place mutation of one instance (assignment,
     deletion, _inplace helpers, direct mutation of nested values at any depth)
     the snapshot of all class-level attributes, of every object ever passed to a
     constructor and of every other live instance must not change;
 (b) reset freshness: after reset_<a> / reset / del the attribute equals what a
     newly constructed instance of the same class holds, is a fresh object (not
     the class-level default, not a peer's value) and is missing iff the fresh
     instance has none.
"""

from __future__ import annotations

import copy

from vlib import classgen as cg
from vlib import driver as dr
from vlib.core import safe_repr
from vlib.snap import alpha, mutable_nodes

PROP = "C08"
LEVEL = "exploration"
EVAL_COUNTER = "ops_judged"
RULE = (
    "seeded class definitions restricted to init-enabled, copyable attributes with every way of declaring a default (literal, mutable "
    "literal, Attr(default=), Attr(default_factory=), dataclasses.field, spec-subclass re-declaration/re-default, plain-subclass "
    "override) x histories mixing construction, in-place mutation (API and direct nested mutation), reset_<a>, reset, del and further "
    "construction; distinct by (operation kind, default style of the attribute, attribute type, class shape, preparer?)"
)
ASSUMPTIONS = [
    "do_not_copy attributes are excluded from the generated histories (copies share them by declaration); that independently constructed instances do not share their default is judged by directed cases",
    "a fresh instance is built with only the required key keyword; attributes passed as keywords are not compared",
]


def GATES(tier):
    return [("ops_judged", 500), ("isolation_checked", 300), ("resets_judged", 150), ("nested_direct_mutations", 50), ("constructed_with_UNCHANGED", 20), ("dnc_default_cases", 8)] + [
        (f"default_style:{s}", 5) for s in ("lit", "attr", "factory", "field", "field_factory", "none", "plain_override", "spec_redefault", "spec_redeclare")
    ]


def default_style(world, cname, attr):
    """How the effective default of `attr` for class `cname` was declared."""
    d = world.decl
    for c in d.lineage(cname):
        for a in c.attrs:
            if a.name == attr:
                if a.default is None and (not a.annotated or a.bare):
                    continue  # (only overrides the preparer methods / re-declares by annotation only)
                if a.default is None:
                    return "none"
                if c.kind == "plain":
                    return "plain_override"
                if c.base and not a.annotated:
                    return "spec_redefault"
                if c.base and a.annotated:
                    return "spec_redeclare"
                return a.default[0]
    return "none"


def fresh_instance(world, cname, rng):
    kw = {}
    key = world.decl.flag(cname, "key")
    if key and world.decl.default_of(cname, key) is None:
        kw[key] = "FRESHKEY"
    return world.classes[cname](**kw), set(kw)


def check_reset(ctx, world, insts, inst, cname, attrs_reset, op, history, case):
    fresh, given = fresh_instance(world, cname, ctx.rng)
    peers = [x for x in insts if x is not inst]
    for n in attrs_reset:
        if n in given:
            continue
        ctx.count("resets_judged")
        style = default_style(world, cname, n)
        ctx.count(f"default_style:{style}")
        have, want = n in inst.__dict__, n in fresh.__dict__
        t = cg.BY_NAME[n]
        feats = {"hkind": op.get("hkind", op["kind"]), "inplace": bool(op.get("inplace")), "default_style": style, "attr_kind": t.kind,
                 "preparer": bool(world.decl.preparer_of(cname, n) or world.decl.item_preparer_of(cname, n))}
        feats.update(dr.shape_features(world, cname))
        ctx.sig("reset", feats["hkind"], feats["inplace"], style, t.kind, feats["cls_kind"], feats["preparer"])
        what = None
        if have != want:
            what = f"{n} is {'present (' + safe_repr(inst.__dict__[n], 40) + ')' if have else 'missing'} but a fresh {cname}() has it {'present (' + safe_repr(fresh.__dict__[n], 40) + ')' if want else 'missing'}"
            feats["problem"] = "presence"
        elif have and alpha(inst.__dict__[n]) != alpha(fresh.__dict__[n]):
            what = f"{n} == {safe_repr(inst.__dict__[n], 50)} but a fresh {cname}() holds {safe_repr(fresh.__dict__[n], 50)}"
            feats["problem"] = "value"
        elif have:
            mine = mutable_nodes(inst.__dict__[n])
            if mine:
                shared_with = None
                for cn in list(world.classes) + ["Leaf", "KLeaf"]:
                    for k, v in world.ns[cn].__dict__.items():
                        if not k.startswith("__") and set(mutable_nodes(v)) & set(mine):
                            shared_with = f"class attribute {cn}.{k}"
                for p in peers + [fresh]:
                    for k, v in p.__dict__.items():
                        if set(mutable_nodes(v)) & set(mine):
                            shared_with = shared_with or f"another instance's {k}"
                if shared_with:
                    what = f"{n} after reset shares mutable state with {shared_with}"
                    feats["problem"] = "not_fresh"
        if what:
            ctx.violation("reset_restores_fresh_default", f"after {dr.op_src(op)} on a {cname}: {what}", features=feats, case=case, history=dr.describe_history(history), source=world.source[-1500:])


DNC_SRC = """
from typing import Dict, List
from spec_classes import spec_class, Attr

@spec_class(do_not_copy=["listed"], bootstrap={boot})
class ByList:
    n: int = 0
    listed: List[int] = [1, 2]

@spec_class(bootstrap={boot})
class ByAttr:
    n: int = 0
    listed: Dict[str, int] = Attr(default={{"a": 1}}, do_not_copy=True)

@spec_class(do_not_copy=True, bootstrap={boot})
class Whole:
    n: int = 0
    listed: List[int] = [1, 2]

class PlainSub(ByList):
    pass
"""


def directed_dnc_defaults(ctx):
    """do_not_copy says how *copies of an instance* carry the attribute; it does not make independently constructed
    instances share the class's default: each gets a value of its own, and a reset yields a fresh one."""
    for boot in (True, False):
        ns = cg.exec_module(DNC_SRC.format(boot=boot), prefix="verif_c08d").__dict__
        for cname in ("ByList", "ByAttr", "Whole", "PlainSub"):
            cls = ns[cname]
            ctx.count("ops_judged")
            ctx.count("dnc_default_cases")
            feats = {"hkind": "dnc_default", "cls": cname, "lazy": not boot}

            def edit(v):
                if isinstance(v, list):
                    v.append(99)
                else:
                    v["zz"] = 99

            problems = []
            try:
                a, b = cls(), cls()
                pristine = copy.deepcopy(b.listed)
                edit(a.listed)
                if b.listed != pristine:
                    problems.append(f"editing a.listed in place changed an independently constructed peer: {b.listed!r}")
                c = cls()
                if c.listed != pristine:
                    problems.append(f"... and a later instance starts from {c.listed!r}, not from the declared default {pristine!r}")
                if "listed" in cls.__dict__ and cls.__dict__["listed"] != pristine:
                    problems.append(f"... and the class-level default is now {cls.__dict__['listed']!r}")
                a.reset_listed(_inplace=True)
                if a.listed != pristine:
                    problems.append(f"reset_listed(_inplace=True) restored {a.listed!r}, a new instance holds {pristine!r}")
                edit(a.listed)
                d = cls()
                if d.listed != pristine or b.listed != pristine:
                    problems.append(f"the value restored by reset is shared: after editing it a new instance holds {d.listed!r}, the peer {b.listed!r}")
            except Exception as e:
                problems.append(f"{type(e).__name__}: {e}")
            ctx.sig("dnc_default", cname, boot, not problems)
            if problems:
                ctx.violation("mutation_isolated", f"[directed] {cname} (do_not_copy attribute with a mutable literal default, bootstrap={boot}): {problems[:3]}", features=feats, case=["dnc_default", cname, boot])


def run(ctx, params):
    if params.get("directed"):
        return directed_dnc_defaults(ctx)
    rng = ctx.rng
    import checks.c02 as c02

    for ci in range(params["cases"]):
        decl = cg.gen_module(rng, {"frozen": False, "dnc_attrs": False, "init_false": False})
        world = cg.World(decl)
        try:
            insts, history, ctor_objs = [], [], {}
            for step_i in range(params["ops_per_case"]):
                case = [params.get("shard"), ci, step_i]
                receivers = [i for i, x in enumerate(insts) if dr.class_name(world, x) is not None]
                r = rng.random()
                if len(insts) < 2 or r < 0.15:
                    op = dr.gen_construct(world, rng)
                    with_default = [n for n, (_o, a) in world.decl.attrs_of(op["cls"]).items() if world.decl.default_of(op["cls"], n) is not None and n not in op["kwargs"] and a.init]
                    if with_default and rng.random() < 0.2:
                        # "leave it as it is": the instance still gets a default of its own
                        op["kwargs"][rng.choice(with_default)] = ["sentinel", "UNCHANGED"]
                        ctx.count("constructed_with_UNCHANGED")
                    st = dr.execute(world, insts, op, scopes=("all", "classes") if len(insts) >= 2 else (), extra_roots=dict(ctor_objs), saturate=True)
                    if st.outcome == "returned":
                        for k, v in list(st.kwargs.items()):
                            ctor_objs[f"ctor{len(history)}:{k}"] = v
                    if len(insts) >= 2:
                        ctx.count("ops_judged")
                        ctx.count("isolation_checked")
                        d = dr.changed(st)
                        if d:
                            ctx.violation("construction_isolated", f"{dr.op_src(op)} changed pre-existing objects: {d[:3]}", features={"hkind": "construct", "changed": sorted({x.split(':')[0] for x in d})}, case=case, history=dr.describe_history(history), source=world.source[-1500:])
                    dr.register_result(world, insts, st)
                    history.append(op)
                    continue
                target = rng.choice(receivers)
                inst = insts[target]
                cname = dr.class_name(world, inst)
                attrs = world.decl.attrs_of(cname)
                if r < 0.40:
                    # reset / delete
                    which = rng.choice(["reset_attr", "reset_attr", "del", "reset"])
                    n = rng.choice(list(attrs))
                    inplace = rng.random() < 0.5
                    if which == "del":
                        op = {"kind": "delattr", "target": target, "attr": n, "hkind": "delattr", "inplace": True}
                    elif which == "reset":
                        op = {"kind": "helper", "target": target, "name": "reset", "hkind": "reset", "args": [], "kwargs": {"_inplace": True} if inplace else {}, "inplace": inplace, "attr": None}
                    else:
                        op = {"kind": "helper", "target": target, "name": f"reset_{n}", "hkind": "reset_attr", "args": [], "kwargs": {"_inplace": True} if inplace else {}, "inplace": inplace, "attr": n}
                    st = dr.execute(world, insts, op, scopes=("peers", "classes"), extra_roots=dict(ctor_objs), saturate=True)
                    ctx.count("ops_judged")
                    d = dr.changed(st)
                    if d:
                        ctx.violation("mutation_isolated", f"{dr.op_src(op)} changed defaults / constructor arguments / peers: {d[:3]}", features={"hkind": op["hkind"], "changed": sorted({x.split(':')[0].split('.')[0] for x in d})}, case=case, history=dr.describe_history(history), source=world.source[-1500:])
                    if st.outcome == "returned":
                        subject = st.value if (op["kind"] == "helper" and st.value is not None) else inst
                        check_reset(ctx, world, insts, subject, cname, list(attrs) if which == "reset" else [n], op, history, case)
                    elif not (op["kind"] == "delattr" or which == "reset_attr"):
                        pass
                    dr.register_result(world, insts, st)
                    history.append(op)
                    continue
                # in-place mutation: API or direct nested
                mop = c02.random_inplace_mutation(world, rng, insts, target)
                if mop is None:
                    continue
                st = dr.execute(world, insts, mop, scopes=("peers", "classes"), extra_roots=dict(ctor_objs), saturate=True)
                ctx.count("ops_judged")
                ctx.count("isolation_checked")
                if mop["kind"] == "nested":
                    ctx.count("nested_direct_mutations")
                d = dr.changed(st)
                t = cg.BY_NAME.get((mop.get("attr") or "").split(",")[0], None)
                style = default_style(world, cname, mop["attr"].split(",")[0]) if mop.get("attr") else None
                ctx.sig("mutate", mop["hkind"], mop.get("form"), t.kind if t else None, style, dr.shape_features(world, cname)["cls_kind"])
                if d:
                    ctx.violation(
                        "mutation_isolated",
                        f"in-place {dr.op_src(mop)} on a {cname} changed defaults / constructor arguments / peers: {d[:3]}",
                        features={"hkind": mop["hkind"], "attr_kind": t.kind if t else None, "default_style": style, "changed": sorted({x.split(':')[0].split('.')[0].split('[')[0] for x in d})},
                        case=case, history=dr.describe_history(history), source=world.source[-1500:],
                    )
                history.append(mop)
                if ci % 80 == 0 and step_i == 5:
                    ctx.sample({"class_source_tail": world.source[-500:], "history": dr.describe_history(history)})
        finally:
            world.close()


def plan(tier, seed):
    if tier == "quick":
        return [{"directed": True}] + [{"shard": i, "cases": 50, "ops_per_case": 14} for i in range(16)]
    return [{"directed": True}] + [{"shard": i, "cases": 1000, "ops_per_case": 16} for i in range(32)]
