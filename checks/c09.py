"""
C09 - the generated constructor assigns exactly what the class hierarchy specifies.

Monitor: constructor reference model over generated hierarchies of depth <= 3. For every class of the hierarchy and
every subset of keywords (exhaustive up to 5 init-enabled attributes), the state of the fresh instance, the arguments
received by hand-written parent constructors (call log) and the __post_init__ call count / timing are compared with the
model: value = keyword if given, else nearest default along the MRO, else missing; attributes owned by a parent are
initialised through that parent's constructor (a hand-written one adds a known offset and has its own signature
defaults); key positional / required without default; unknown keyword -> TypeError unless an overflow attribute
collects exactly the unknown keywords; non-conforming keyword -> TypeError / ValueError.
"""

from __future__ import annotations

import itertools

from vlib import classgen as cg
from vlib.core import safe_repr

PROP = "C09"
LEVEL = "exploration"
EVAL_COUNTER = "constructions_judged"
RULE = (
    "hierarchies: one or two spec parents (generated or hand-written constructor of the documented shape, init=False attributes, key "
    "with/without default), a spec child re-declaring / re-defaulting / adding attributes (optional overflow attribute, __post_init__), "
    "an optional plain or spec grandchild; for every class x every subset of init-enabled keywords (exhaustive, <= 5 attributes, "
    "conforming values) + one non-conforming keyword + unknown keywords + key positional / missing; distinct by (hierarchy shape "
    "features, instance class level, keyword subset size, keyword kinds, outcome)"
)
ASSUMPTIONS = [
    "reference model in this file, from docsite/docs/usage/advanced.md (Subclassing) and test_respect_super_init",
    "not judged: the value visible for init=False attributes, passing the overflow attribute's own name",
]


def GATES(tier):
    return [("constructions_judged", 1500), ("hierarchies", 60), ("handwritten_parent_calls_compared", 200), ("post_init_checked", 300), ("unknown_kw_rejected", 100), ("overflow_collected", 50),
            ("nonconforming_rejected", 100), ("key_positional", 30), ("key_missing_rejected", 10), ("two_parents", 10), ("plain_grandchild", 10), ("spec_grandchild", 10), ("init_false_parent", 5),
            ("redeclared_attr", 20), ("redefaulted_attr", 20), ("parent_post_init", 10), ("key_redefaulted", 3), ("plain_middle", 5), ("colliding_parents", 20), ("key_default_factory", 8), ("bare_redeclaration", 10), ("overflow_with_wildcard_dependant", 10), ("plain_subclass_post_init", 10), ("diamond_cases", 10), ("keyed_parent_ctor_cases", 20), ("falsy_keyword_cases", 50), ("overflow_inherited", 2), ("overflow_switched_off", 2), ("key_falsy_default", 2), ("key_restated", 2), ("overflow_own_name_cases", 20)]


class H:
    """Hierarchy declaration (plain data) + source rendering + reference model."""

    def __init__(self, rng):
        self.rng = rng
        self.classes = {}  # name -> dict(bases, kind, attrs{name: dict(default, init, annotated)}, ctor, sigdefs, key, key_default, overflow, post_init)
        self.order = []
        names = iter(["a1", "a2", "a3", "b1", "b2", "c1", "c2", "d1"])
        self.features = set()

        def new_attrs(prefix, n, allow_init_false=True):
            out = {}
            for i in range(n):
                nm = f"{prefix}{i + 1}"
                default = rng.choice([None, rng.randint(1, 9) * 10, rng.randint(1, 9) * 10, 0])  # (0: a falsy default is a default)
                init = True
                if allow_init_false and default is not None and rng.random() < 0.15:
                    init = False
                out[nm] = {"default": default, "init": init, "annotated": True, "style": rng.choice(["lit", "attr", "factory", "field", "field_factory"]) if default is not None else None}
            return out

        def parent(name, prefix):
            handwritten = rng.random() < 0.45
            attrs = new_attrs(prefix, rng.randint(1, 3), allow_init_false=not handwritten)
            c = {"bases": [], "kind": "spec", "attrs": attrs, "ctor": "handwritten" if handwritten else "generated", "sigdefs": {}, "key": None, "overflow": None,
                 "post_init": (not handwritten) and rng.random() < 0.3}
            if c["post_init"]:
                self.features.add("parent_post_init")
            if handwritten:
                c["sigdefs"] = {n: rng.randint(1, 9) * 100 for n in attrs}
                for a in attrs.values():  # the documented shape declares the attributes without class-level defaults
                    a["default"], a["style"] = None, None
                self.features.add("handwritten_parent")
            if any(not a["init"] for a in attrs.values()):
                self.features.add("init_false_parent")
            self.classes[name] = c
            self.order.append(name)

        parent("A", "a")
        two = rng.random() < 0.3
        if two:
            parent("B", "b")
            self.features.add("two_parents")
            # both parents declare the same attribute: the one that comes first in the MRO (A) owns it - its type, its
            # default and its constructor apply. (A always assigns it: hand-written, or generated with a default.)
            A, B = self.classes["A"], self.classes["B"]
            cand = [n for n, a in A["attrs"].items() if a["init"] and (A["ctor"] == "handwritten" or a["default"] is not None)]
            if cand and rng.random() < 0.5:
                n = rng.choice(cand)
                if B["ctor"] == "handwritten":
                    B["attrs"] = {n: {"default": None, "init": True, "annotated": True, "style": None}, **B["attrs"]}
                    B["sigdefs"] = {n: rng.randint(1, 9) * 1000, **B["sigdefs"]}
                elif A["ctor"] == "generated" and rng.random() < 0.5:
                    B["attrs"] = {n: {"default": "bs", "init": True, "annotated": True, "style": "lit", "type": "str"}, **B["attrs"]}
                else:
                    # (no class-level default in B behind a hand-written A: whether A's bare declaration shadows it is not documented)
                    B["attrs"][n] = {"default": None if A["ctor"] == "handwritten" else rng.choice([None, rng.randint(1, 9) * 7]), "init": True, "annotated": True, "style": "lit"}
                self.features.add("colliding_parents")
        # key on the root (generated constructors only)
        if self.classes["A"]["ctor"] == "generated" and rng.random() < 0.35:
            self.classes["A"]["key"] = "k"
            self.classes["A"]["key_default"] = rng.choice([None, "kd", ""])  # ("": a falsy default is a default)
            if self.classes["A"]["key_default"] == "":
                self.features.add("key_falsy_default")
            self.classes["A"]["key_style"] = rng.choice(["lit", "attr", "factory", "field_factory"])
            if self.classes["A"]["key_default"] is not None and self.classes["A"]["key_style"] in ("factory", "field_factory"):
                self.features.add("key_default_factory")
            self.features.add("key" if self.classes["A"]["key_default"] is None else "key_with_default")
        # overflow attribute on the root (generated constructors only): the child inherits it or switches it off
        if self.classes["A"]["ctor"] == "generated" and not two and rng.random() < 0.2:
            self.classes["A"]["overflow"] = "extras"
            self.features.add("parent_overflow")
        # child
        c_attrs = {}
        inherited = [n for p in (["A", "B"] if two else ["A"]) for n, a in self.classes[p]["attrs"].items() if a["init"]]
        rng.shuffle(inherited)
        if inherited and rng.random() < 0.6:
            n = inherited.pop()
            c_attrs[n] = {"default": rng.randint(1, 9), "init": True, "annotated": True, "style": "lit"}  # re-declared: ownership moves
            self.features.add("redeclared_attr")
        if inherited and rng.random() < 0.6:
            n = inherited.pop()
            c_attrs[n] = {"default": rng.randint(1, 9), "init": True, "annotated": False, "style": "lit"}  # re-defaulted: ownership stays
            self.features.add("redefaulted_attr")
        gen_inherited = [n for n in inherited if self.classes[self.owner_of_parent_attr(n, two)]["ctor"] == "generated" and n not in c_attrs]
        if gen_inherited and rng.random() < 0.3:
            # bare re-declaration (`x: int`): ownership moves to the child, the default it sees is still the parent's
            n = gen_inherited[0]
            inherited.remove(n)
            c_attrs[n] = {"default": None, "init": True, "annotated": True, "style": None, "bare": True}
            self.features.add("bare_redeclaration")
        if self.classes["A"].get("key") and rng.random() < 0.5:
            # the child merely re-defaults the inherited key (no annotation): the key is then optional for the child
            c_attrs["k"] = {"default": "ck", "init": True, "annotated": False, "style": "lit"}
            self.features.add("key_redefaulted")
            if rng.random() < 0.5:
                self._key_restated = True  # ... and names the key again in its own decorator
                self.features.add("key_restated")
        c_attrs.update(new_attrs("c", rng.randint(0, 2), allow_init_false=False))
        self._star_candidates = [n for n, a in c_attrs.items() if n.startswith("c") and a["default"] is not None]
        c_bases = ["A", "B"] if two else ["A"]
        if not two and rng.random() < 0.3:
            # a plain (undecorated) class between the spec parent and the spec child, re-defaulting one attribute
            cand = [n for n, a in self.classes["A"]["attrs"].items() if a["init"] and n not in c_attrs]
            over = {rng.choice(cand): {"default": rng.randint(1, 9) + 500, "init": True, "annotated": False, "style": "lit"}} if cand and rng.random() < 0.7 else {}
            if self.classes["A"]["ctor"] == "handwritten":
                over = {}
            self.classes["PM"] = {"bases": ["A"], "kind": "plain", "attrs": over, "ctor": "inherited", "sigdefs": {}, "key": None, "overflow": None, "post_init": False}
            self.order.append("PM")
            c_bases = ["PM"]
            self.features.add("plain_middle")
        if self.classes["A"].get("overflow"):
            c_overflow = rng.choice([None, "OFF"])  # inherit / init_overflow_attr=None
            self.features.add("overflow_inherited" if c_overflow is None else "overflow_switched_off")
        else:
            c_overflow = "extras" if rng.random() < 0.3 else None
        self.classes["C"] = {"bases": c_bases, "kind": "spec", "attrs": c_attrs, "ctor": "generated", "sigdefs": {}, "key": None, "overflow": c_overflow,
                             "post_init": rng.random() < 0.6}
        self.order.append("C")
        if self.classes["C"]["overflow"] == "extras":
            self.features.add("overflow")
            if self._star_candidates and rng.random() < 0.6:
                # an attribute that any later assignment would reset: nothing assigned during construction does
                self.classes["C"]["attrs"][self._star_candidates[0]]["style"] = "attr_star"
                self.features.add("overflow_with_wildcard_dependant")
        r = rng.random()
        if r < 0.3:
            cand = [n for n in self.managed("C") if n not in (self.effective("C", "key")[0], self.effective("C", "overflow")[0]) and n not in self.overflow_names("C") and self.attr_info("C", n)["init"]]
            over = {rng.choice(cand): {"default": rng.randint(1, 9) + 1000, "init": True, "annotated": False, "style": "lit"}} if cand else {}
            self.classes["D"] = {"bases": ["C"], "kind": "plain", "attrs": over, "ctor": "inherited", "sigdefs": {}, "key": None, "overflow": None, "post_init": rng.random() < 0.5}
            self.order.append("D")
            self.features.add("plain_grandchild")
            if self.classes["D"]["post_init"]:
                self.features.add("plain_subclass_post_init")
        elif r < 0.55:
            self.classes["D"] = {"bases": ["C"], "kind": "spec", "attrs": new_attrs("d", 1, allow_init_false=False), "ctor": "generated", "sigdefs": {}, "key": None, "overflow": None, "post_init": False}
            self.order.append("D")
            self.features.add("spec_grandchild")
        self.lazy = rng.random() < 0.5

    def owner_of_parent_attr(self, n, two):
        return next(p for p in (["A", "B"] if two else ["A"]) if n in self.classes[p]["attrs"])

    # -- structure -----------------------------------------------------------------------------
    def mro(self, name):
        """C3 linearisation for the shapes generated here (single chain, or C(A, B))."""
        c = self.classes[name]
        if not c["bases"]:
            return [name]
        if len(c["bases"]) == 1:
            return [name] + self.mro(c["bases"][0])
        return [name] + [b for b in c["bases"]]

    def spec_owner_class(self, name):
        return next(n for n in self.mro(name) if self.classes[n]["kind"] == "spec")

    def managed(self, name):
        """Ordered {attr: owner class} of managed attributes as seen by the metadata of spec class `name`."""
        name = self.spec_owner_class(name)
        c = self.classes[name]
        out = {}
        for b in reversed(c["bases"]):
            out.update(self.managed(b))
        if c.get("key"):
            out.setdefault(c["key"], name)
        for n, a in c["attrs"].items():
            if a["annotated"]:
                out[n] = name
        if c.get("overflow") and c["overflow"] != "OFF":
            out[c["overflow"]] = name
        return out

    def attr_info(self, name, attr):
        """Declaration that defines the flags of `attr` for class `name` (the owner's annotated declaration)."""
        owner = self.managed(name)[attr]
        return self.classes[owner]["attrs"].get(attr, {"default": None, "init": True, "annotated": True})

    def effective(self, name, what):
        for n in self.mro(name):
            v = self.classes[n].get(what)
            if v == "OFF":
                return None, n  # switched off here: nothing is inherited from further up
            if v:
                return v, n
        return None, None

    def overflow_names(self, name):
        """Names that serve (or served, further up the MRO) as overflow attribute: never ordinary keywords of the cases."""
        return {self.classes[n]["overflow"] for n in self.mro(name) if self.classes[n].get("overflow") not in (None, "OFF")}

    def key_default(self, name, key):
        """Default of the key as seen from class `name`: nearest class-body re-default, else the owner's declaration."""
        d = self.nearest_default(name, key)
        if d is not None:
            return d
        return self.classes[self.managed(name)[key]].get("key_default")

    def nearest_default(self, name, attr):
        """Nearest class-body default along the MRO of `name` (None = no default)."""
        owner = self.managed(name).get(attr)
        for n in self.mro(name):
            a = self.classes[n]["attrs"].get(attr)
            if a is not None and a["default"] is not None:
                return a["default"]
            if n == owner:
                # the owner's declaration is where the search along *this* class's MRO ends (classes behind it are
                # shadowed); a bare declaration itself took the default visible from the owner's own parents
                for m in self.mro(owner)[1:]:
                    a = self.classes[m]["attrs"].get(attr)
                    if a is not None and a["default"] is not None:
                        return a["default"]
                return None
        return None

    # -- source -----------------------------------------------------------------------------------
    def source(self):
        L = ["from dataclasses import field", "from typing import Any, Dict", "from spec_classes import spec_class, Attr", "", "CALLS = []", ""]
        for name in self.order:
            c = self.classes[name]
            if c["kind"] == "spec":
                args = [f"bootstrap={not self.lazy}"]
                if c.get("key"):
                    args.append(f"key={c['key']!r}")
                elif name == "C" and getattr(self, "_key_restated", False):
                    args.append("key='k'")
                if c.get("overflow") == "OFF":
                    args.append("init_overflow_attr=None")
                elif c.get("overflow"):
                    args.append(f"init_overflow_attr={c['overflow']!r}")
                L.append(f"@spec_class({', '.join(args)})")
            L.append(f"class {name}{'(' + ', '.join(c['bases']) + ')' if c['bases'] else ''}:")
            body = []
            if c.get("key"):
                kd = c.get("key_default")
                ks = {"lit": "{v!r}", "attr": "Attr(default={v!r})", "factory": "Attr(default_factory=lambda: {v!r})", "field_factory": "field(default_factory=lambda: {v!r})"}[c.get("key_style", "lit")]
                body.append(f"    {c['key']}: str" + (" = " + ks.format(v=kd) if kd is not None else ""))
            for n, a in c["attrs"].items():
                if a["annotated"] and c["kind"] == "spec":
                    if a.get("type") == "str":
                        body.append(f"    {n}: str = {a['default']!r}")
                    elif a["default"] is None:
                        body.append(f"    {n}: int")
                    elif not a["init"]:
                        body.append(f"    {n}: int = Attr(default={a['default']}, init=False)")
                    elif a["style"] == "attr_star":
                        body.append(f"    {n}: int = Attr(default={a['default']}, invalidated_by=['*'])")
                    elif a["style"] == "attr":
                        body.append(f"    {n}: int = Attr(default={a['default']})")
                    elif a["style"] == "factory":
                        body.append(f"    {n}: int = Attr(default_factory=lambda: {a['default']})")
                    elif a["style"] == "field":
                        body.append(f"    {n}: int = field(default={a['default']})")
                    elif a["style"] == "field_factory":
                        body.append(f"    {n}: int = field(default_factory=lambda: {a['default']})")
                    else:
                        body.append(f"    {n}: int = {a['default']}")
                else:
                    body.append(f"    {n} = {a['default']!r}")
            if c["ctor"] == "handwritten":
                sig = ", ".join(f"{n}={d}" for n, d in c["sigdefs"].items())
                body.append(f"    def __init__(self, {sig}):")
                body.append(f"        CALLS.append(({name!r}, dict({', '.join(f'{n}={n}' for n in c['sigdefs'])})))")
                for n in c["sigdefs"]:
                    body.append(f"        self.{n} = {n} + 1")
            if c.get("post_init"):
                body.append("    def __post_init__(self):")
                body.append("        self.__dict__['pi_count'] = self.__dict__.get('pi_count', 0) + 1")
                body.append(f"        self.__dict__['pi_who'] = self.__dict__.get('pi_who', '') + {name!r}")
                body.append("        self.__dict__['pi_seen'] = sorted(k for k in self.__dict__ if not k.startswith('pi_') and not k.startswith('__'))")
            if not body:
                body.append("    pass")
            L += body + [""]
        return "\n".join(L)

    # -- model ---------------------------------------------------------------------------------------
    def expect(self, name, kw, positional_key=None):
        """(outcome, state, calls): outcome 'ok' | exception classes."""
        managed = self.managed(name)
        key, _ = self.effective(name, "key")
        overflow, _ = self.effective(name, "overflow")
        kw = dict(kw)
        if positional_key is not None:
            kw[key] = positional_key
        init_names = {n for n in managed if n != overflow and n not in self.overflow_names(name) and (n == key or self.attr_info(name, n)["init"])}
        unknown = {k: v for k, v in kw.items() if k not in init_names}
        if unknown and not overflow:
            return ("raise", (TypeError,)), None, None
        if any(k in managed and k != overflow for k in unknown) and not overflow:
            return ("raise", (TypeError,)), None, None  # init=False attribute passed by keyword
        # (with an overflow attribute a keyword naming an init=False attribute is an unknown keyword like any other)
        if key:
            kd = self.key_default(name, key)
            if key not in kw and kd is None:
                return ("raise", (TypeError,)), None, None
        for k, v in kw.items():
            if k in init_names and k != key and not isinstance(v, str if self.attr_info(name, k).get("type") == "str" else int):
                return ("raise", (TypeError, ValueError)), None, None
            if k == key and not isinstance(v, str):
                return ("raise", (TypeError, ValueError)), None, None
        state, calls = {}, {}
        inst_spec = self.spec_owner_class(name)
        for n, owner in managed.items():
            if n == overflow or n in self.overflow_names(name):
                continue
            if n == key:
                state[n] = kw.get(key, self.key_default(name, key))
                continue
            info = self.attr_info(name, n)
            if not info["init"]:
                continue
            given = n in kw
            v = kw[n] if given else self.nearest_default(name, n)
            oc = self.classes[owner]
            if oc["ctor"] == "handwritten" and owner != inst_spec:
                passed = v is not None
                received = v if passed else oc["sigdefs"][n]
                calls.setdefault(owner, {})[n] = received
                state[n] = received + 1
            elif oc["ctor"] == "handwritten":
                # constructing the hand-written class itself: its own __init__ runs with what the caller passed
                received = kw[n] if given else oc["sigdefs"][n]
                calls.setdefault(owner, {})[n] = received
                state[n] = received + 1
            elif v is not None:
                state[n] = v
        # a hand-written constructor always receives all of its parameters (signature defaults fill the rest)
        for owner, got in calls.items():
            for n, sd in self.classes[owner]["sigdefs"].items():
                if n not in got:
                    # attribute re-declared by a subclass: the parent constructor falls back to its signature default,
                    # then the new owner assigns its own value afterwards
                    got[n] = sd
        if overflow:
            state[overflow] = dict(unknown)
        return ("ok", None), state, calls


DIAMOND_SRC = """
from spec_classes import spec_class, Attr

@spec_class(bootstrap={boot})
class Base:
    x: int = 1
    y: int = 2
    z: int = 3

@spec_class(bootstrap={boot})
class Left(Base):
    l: int = 30

@spec_class(bootstrap={boot})
class Right(Base):
    x: int = 10                                    # re-declared with a new default
    y: int = Attr(default_factory=lambda: 20)      # ... with a default factory
    z: str = "three"                               # ... with another type

@spec_class(bootstrap={boot})
class Both(Left, Right):       # MRO: Both, Left, Right, Base
    b: int = 4

@spec_class(bootstrap={boot})
class Htob(Right, Left):       # MRO: Htob, Right, Left, Base
    b: int = 4
"""


KEYED_SRC = """
from spec_classes import spec_class, Attr

@spec_class(key="k", bootstrap={boot})
class HW:                      # documented shape of a hand-written constructor; the key has a default
    k: str = "a"
    x: int
    def __init__(self, k="a", x=100):
        self.k = k + "!"
        self.x = x + 1

@spec_class(bootstrap={boot})
class HWChild(HW):
    y: int = 2

@spec_class(key="k", bootstrap={boot})
class HWReq:                   # ... the key is a required parameter
    k: str
    x: int
    def __init__(self, k, x=100):
        self.k = k
        self.x = x + 1

@spec_class(bootstrap={boot})
class HWReqChild(HWReq):
    y: int = 2

@spec_class(key="k", bootstrap={boot})
class NK:                      # the key is not a constructor parameter at all
    k: str = Attr(default="kk", init=False)
    x: int = 1

@spec_class(bootstrap={boot})
class NKChild(NK):
    y: int = 2

class NKPlain(NK):
    pass

@spec_class(key="k", bootstrap={boot})
class NKPost:                  # ... and is derived in __post_init__
    k: str = Attr(init=False)
    x: int = 1
    def __post_init__(self):
        self.__dict__['pi_count'] = self.__dict__.get('pi_count', 0) + 1
        self.k = "id%d" % self.x

@spec_class(bootstrap={boot})
class NKPostChild(NKPost):
    y: int = 2
"""

RAISES = (TypeError, ValueError)

DIRECTED = [
    # (source, feature, description, attrs observed, {class: [(args, kwargs, expectation)]})
    (DIAMOND_SRC, "diamond", "diamond Base <- Left, Right(re-declares x, y, z)", ("x", "y", "z", "l", "b"), {
        cname: [
            ((), {}, {"x": 10, "y": 20, "z": "three", "l": 30, "b": 4}),
            ((), {"x": 5, "l": 6}, {"x": 5, "y": 20, "z": "three", "l": 6, "b": 4}),
            ((), {"z": "s"}, {"x": 10, "y": 20, "z": "s", "l": 30, "b": 4}),
            ((), {"z": 7}, RAISES),
            ((), {"x": "s"}, RAISES),
        ] for cname in ("Both", "Htob")}),
    (KEYED_SRC, "keyed_parent_ctor", "keyed parents whose key is an optional / required / no constructor parameter", ("k", "x", "y", "pi_count"), {
        "HWChild": [((), {}, {"k": "a!", "x": 101, "y": 2}), (("z",), {}, {"k": "z!", "x": 101, "y": 2}), ((), {"k": "z", "x": 5}, {"k": "z!", "x": 6, "y": 2}),
                    ((), {"y": 7}, {"k": "a!", "x": 101, "y": 7}), ((), {"q": 1}, (TypeError,))],
        "HWReqChild": [(("z",), {}, {"k": "z", "x": 101, "y": 2}), ((), {"k": "z", "x": 5, "y": 3}, {"k": "z", "x": 6, "y": 3}), ((), {}, (TypeError,))],
        "NK": [((), {}, {"k": "kk", "x": 1}), ((), {"k": "z"}, (TypeError,))],
        "NKChild": [((), {}, {"k": "kk", "x": 1, "y": 2}), ((), {"x": 3}, {"k": "kk", "x": 3, "y": 2}), ((), {"y": 5}, {"k": "kk", "x": 1, "y": 5}), ((), {"k": "z"}, (TypeError,)),
                    ((), {"x": "s"}, RAISES)],
        "NKPlain": [((), {}, {"k": "kk", "x": 1}), ((), {"x": 3}, {"k": "kk", "x": 3})],
        "NKPost": [((), {"x": 4}, {"k": "id4", "x": 4, "pi_count": 1})],
        "NKPostChild": [((), {}, {"k": "id1", "x": 1, "y": 2, "pi_count": 1}), ((), {"x": 4, "y": 3}, {"k": "id4", "x": 4, "y": 3, "pi_count": 1})],
    }),
]


def directed_cases(ctx):
    """Hand-written hierarchies outside the generator's shapes: the nearest class along the MRO that (re-)declares an
    attribute decides its default and type (diamond); a parent's key reaches the parent constructor only as that
    constructor takes it."""
    for src, feature, what, observed, table in DIRECTED:
        for boot in (True, False):
            ns = cg.exec_module(src.format(boot=boot), prefix="verif_c09d").__dict__
            for cname, cases in table.items():
                for args, kw, want in cases:
                    ctx.count("constructions_judged")
                    ctx.count(f"{feature}_cases")
                    call = ", ".join([repr(a) for a in args] + [f"{k}={v!r}" for k, v in kw.items()])
                    label = f"{cname}({call}) [{what}; lazy={not boot}]"
                    feats = {"features": [feature], "level": 2, "cls_kind": "spec", "ctor": "generated", "case_kind": feature, "key_mode": None, "lazy": not boot}
                    case = [feature, cname, boot, list(args), sorted(kw)]
                    try:
                        inst = ns[cname](*args, **kw)
                        got = {k: getattr(inst, k) for k in observed if hasattr(inst, k)}
                    except Exception as e:
                        got = e
                    if isinstance(want, tuple):
                        if not isinstance(got, want):
                            ctx.violation("constructor_rejects", f"{label}: expected {[w.__name__ for w in want]} but got {safe_repr(got, 100)}", features=feats, case=case)
                    elif isinstance(got, Exception):
                        ctx.violation("constructor_accepts", f"{label}: raised {type(got).__name__}: {safe_repr(got, 120)}; the model constructs {want}", features=dict(feats, exc=type(got).__name__), case=case)
                    elif got != want:
                        ctx.violation("constructor_state", f"{label}: attributes {got}, the declarations along the MRO give {want}", features=feats, case=case)
            ctx.sig(feature, boot)


def run(ctx, params):
    if params.get("directed"):
        return directed_cases(ctx)
    rng = ctx.rng
    for hi in range(params["hierarchies"]):
        h = H(rng)
        ctx.count("hierarchies")
        for f in h.features:
            ctx.count(f)
        src = h.source()
        try:
            ns = cg.exec_module(src, prefix="verif_c09").__dict__
        except Exception as e:
            ctx.violation("hierarchy_definable", f"defining the hierarchy raised {type(e).__name__}: {e}", features={"features": sorted(h.features)}, case=[hi], source=src)
            continue
        shape = ",".join(sorted(h.features))
        for level, cname in enumerate(h.order):
            c = h.classes[cname]
            managed = h.managed(cname)
            key, _ = h.effective(cname, "key")
            overflow, _ = h.effective(cname, "overflow")
            if c["ctor"] == "handwritten":
                init_names = list(c["sigdefs"])
            else:
                init_names = [n for n in managed if n not in (overflow, key) and n not in h.overflow_names(cname) and h.attr_info(cname, n)["init"]]
            init_false = [n for n in managed if n not in (overflow, key) and n not in h.overflow_names(cname) and not h.attr_info(cname, n)["init"]]
            subsets = []
            for r in range(len(init_names) + 1):
                subsets += list(itertools.combinations(init_names, r))
            if len(subsets) > params["max_subsets"]:
                subsets = rng.sample(subsets, params["max_subsets"])
            cases = []
            for sub in subsets:
                kw = {n: (f"s{7000 + i}" if h.attr_info(cname, n).get("type") == "str" else 7000 + i) for i, n in enumerate(sub)}
                for key_mode in (["kw", "pos", "missing"] if key else [None]):
                    cases.append((dict(kw), key_mode, "conforming"))
            if init_names:
                cases.append(({init_names[0]: 12345 if h.attr_info(cname, init_names[0]).get("type") == "str" else "not-an-int"}, "kw" if key else None, "nonconforming"))
                cases.append(({init_names[-1]: None}, "kw" if key else None, "nonconforming"))
                # falsy values are values like any others
                cases.append(({n: ("" if h.attr_info(cname, n).get("type") == "str" else 0) for n in init_names[:3]}, "kw" if key else None, "conforming"))
                ctx.count("falsy_keyword_cases")
            if overflow and c["ctor"] != "handwritten":
                # a keyword named like the overflow attribute itself is an overflow keyword like any other
                cases.append(({overflow: 5, "zz_unknown": 1}, "kw" if key else None, "unknown"))
                ctx.count("overflow_own_name_cases")
            cases.append(({"zz_unknown": 1}, "kw" if key else None, "unknown"))
            cases.append(({"zz_unknown": 1, "yy_unknown": "s", **({init_names[0]: "five" if h.attr_info(cname, init_names[0]).get("type") == "str" else 5} if init_names else {})}, "kw" if key else None, "unknown"))
            for n in init_false[:1]:
                cases.append(({n: 3}, "kw" if key else None, "init_false_kw"))
            for kw, key_mode, kind in cases:
                args = []
                kw_call = dict(kw)
                pk = None
                if key_mode == "kw":
                    kw_call[key] = "KV"
                elif key_mode == "pos":
                    args, pk = ["KP"], "KP"
                    ctx.count("key_positional")
                if c["ctor"] == "handwritten" and kind in ("unknown",):
                    continue  # a hand-written constructor decides itself what it accepts
                exp, state, calls = h.expect(cname, kw_call, positional_key=pk)
                if exp[0] == "unspecified":
                    ctx.count("unspecified_skipped")
                    continue
                if c["ctor"] == "handwritten" and kind == "nonconforming":
                    exp = ("raise", (TypeError, ValueError))
                ns["CALLS"].clear()
                try:
                    inst = ns[cname](*args, **kw_call)
                    got = ("ok", inst)
                except Exception as e:
                    got = ("raise", e)
                ctx.count("constructions_judged")
                ctx.sig(shape, level, c["kind"], len(kw), kind, key_mode, exp[0])
                feats = {"features": sorted(h.features), "level": level, "cls_kind": c["kind"], "ctor": c["ctor"], "case_kind": kind, "key_mode": key_mode, "lazy": h.lazy}
                label = f"{cname}({', '.join([repr(a) for a in args] + [f'{k}={v!r}' for k, v in kw_call.items()])}) in hierarchy [{shape}]"
                case = [params.get("shard"), hi, cname, sorted(kw_call), key_mode]
                if exp[0] == "raise":
                    if kind == "unknown":
                        ctx.count("unknown_kw_rejected")
                    if kind == "nonconforming":
                        ctx.count("nonconforming_rejected")
                    if key_mode == "missing":
                        ctx.count("key_missing_rejected")
                    if got[0] != "raise":
                        ctx.violation("constructor_rejects", f"{label}: expected {[e.__name__ for e in exp[1]]} but it constructed {safe_repr(got[1], 100)}", features=feats, case=case, source=src)
                    elif not isinstance(got[1], exp[1]):
                        ctx.violation("constructor_rejects", f"{label}: raised {type(got[1]).__name__}: {got[1]}; expected {[e.__name__ for e in exp[1]]}", features=dict(feats, exc=type(got[1]).__name__), case=case, source=src)
                    continue
                if got[0] == "raise":
                    ctx.violation("constructor_accepts", f"{label}: raised {type(got[1]).__name__}: {safe_repr(got[1], 160)}; the model constructs {state}", features=dict(feats, exc=type(got[1]).__name__), case=case, source=src)
                    continue
                inst = got[1]
                actual = {n: inst.__dict__[n] for n in managed if n in inst.__dict__ and (n in (overflow, key) or h.attr_info(cname, n)["init"])}
                if overflow:
                    ctx.count("overflow_collected")
                if actual != state:
                    diff = {n: (actual.get(n, "<missing>"), state.get(n, "<missing>")) for n in set(actual) | set(state) if actual.get(n, "<missing>") != state.get(n, "<missing>")}
                    owners = sorted({h.classes[managed[n]]["ctor"] + ("/moved" if managed[n] == "C" and n[0] in "ab" else "") for n in diff if n in managed})
                    ctx.violation("constructor_state", f"{label}: attributes differ from the model (got, expected): {diff}", features=dict(feats, owner_ctor=owners, differing=len(diff)), case=case, source=src)
                # hand-written parent constructors: received arguments
                seen_calls = {}
                for who, received in ns["CALLS"]:
                    seen_calls.setdefault(who, []).append(received)
                for owner, recv in (calls or {}).items():
                    ctx.count("handwritten_parent_calls_compared")
                    if len(seen_calls.get(owner, [])) != 1:
                        ctx.violation("parent_constructor_called_once", f"{label}: hand-written {owner}.__init__ was called {len(seen_calls.get(owner, []))} times", features=feats, case=case, source=src)
                    elif seen_calls[owner][0] != recv:
                        ctx.violation("parent_constructor_arguments", f"{label}: hand-written {owner}.__init__ received {seen_calls[owner][0]}, the model says {recv}", features=feats, case=case, source=src)
                # __post_init__ exactly once, after all attributes are set
                pc, pc_owner = h.effective(cname, "post_init")  # the nearest definition along the instance's own MRO
                if pc:
                    ctx.count("post_init_checked")
                    if inst.__dict__.get("pi_count") == 1 and inst.__dict__.get("pi_who") != pc_owner:
                        ctx.violation("post_init_once", f"{label}: the __post_init__ that ran is {inst.__dict__.get('pi_who')}'s, the instance's class resolves it to {pc_owner}'s", features=feats, case=case, source=src)
                    if inst.__dict__.get("pi_count") != 1:
                        ctx.violation("post_init_once", f"{label}: __post_init__ ran {inst.__dict__.get('pi_count', 0)} times", features=feats, case=case, source=src)
                    else:
                        final = sorted(k for k in inst.__dict__ if not k.startswith("pi_") and not k.startswith("__"))
                        if inst.__dict__.get("pi_seen") != final:
                            ctx.violation("post_init_after_attributes", f"{label}: __post_init__ saw attributes {inst.__dict__.get('pi_seen')} but the finished instance has {final}", features=feats, case=case, source=src)
        if hi % 20 == 0:
            ctx.sample({"features": sorted(h.features), "lazy": h.lazy, "source": src[-700:]})


def plan(tier, seed):
    if tier == "quick":
        return [{"directed": True}] + [{"shard": i, "hierarchies": 60, "max_subsets": 16} for i in range(16)]
    return [{"directed": True}] + [{"shard": i, "hierarchies": 2500, "max_subsets": 64} for i in range(32)]
