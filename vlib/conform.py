"""Deep type-conformance walk over live instances of generated classes (C03's state invariant)."""

from __future__ import annotations

from . import refcheck
from .classgen import TYPES
from .snap import is_spec_instance

LEAF_SCHEMA = {
    "Leaf": {"v": ("cls", "int"), "w": ("cls", "str"), "ws": ("list", ("cls", "int"), "typing")},
    "KLeaf": {"k": ("cls", "str"), "v": ("cls", "int")},
}


def nested_spec_instances(value, depth=0):
    """Every Leaf/KLeaf instance reachable from `value` through containers (incl. KeyedList/KeyedSet internals)."""
    if depth > 8:
        return
    if isinstance(value, (list, tuple, set, frozenset)):
        for x in value:
            yield from nested_spec_instances(x, depth + 1)
    elif isinstance(value, dict):
        for x in value.values():
            yield from nested_spec_instances(x, depth + 1)
    elif type(value).__name__ in ("KeyedList", "KeyedSet") and hasattr(value, "_dict"):
        for x in value._dict.values():
            yield from nested_spec_instances(x, depth + 1)
        for x in getattr(value, "_list", []):
            yield from nested_spec_instances(x, depth + 1)
    elif is_spec_instance(value) and type(value).__name__ in LEAF_SCHEMA:
        yield value
        for v in value.__dict__.values():
            yield from nested_spec_instances(v, depth + 1)


def violations_in_instance(world, cname, inst):
    """[(path, value, annotation label)] for every stored managed attribute that does not conform."""
    out = []
    env = world.env
    for attr, (_owner, decl) in world.decl.attrs_of(cname).items():
        if attr not in inst.__dict__:
            continue
        v = inst.__dict__[attr]
        term = TYPES[decl.tk].term
        try:
            ok = refcheck.conforms(v, term, env)
        except Exception as e:  # a container so broken the reference walk fails
            ok = False
        if not ok:
            out.append((f"{cname}.{attr}", v, refcheck.label(term)))
        seen = set()
        for leaf in nested_spec_instances(v):
            if id(leaf) in seen:
                continue
            seen.add(id(leaf))
            schema = LEAF_SCHEMA[type(leaf).__name__]
            for la, lterm in schema.items():
                if la in leaf.__dict__ and not refcheck.conforms(leaf.__dict__[la], lterm, env):
                    out.append((f"{cname}.{attr}..{type(leaf).__name__}.{la}", leaf.__dict__[la], refcheck.label(lterm)))
    return out
