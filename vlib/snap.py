"""
Deep structural + identity snapshots of object graphs, and abstract state (alpha).

snap(roots) walks from the given named roots through instance __dict__s (read
raw, never via getattr, so no property getter runs), list/tuple/dict/set
elements and any object with a __dict__ (which covers KeyedList._list/_dict)
and records for every reachable node (path, id, type, immutable value or child
layout). It keeps a strong reference to every visited object so ids cannot be
recycled between two snapshots. Two snapshots are equal iff the same objects sit
at the same paths with equal immutable leaves: "the same object graph with equal
contents".
"""

from __future__ import annotations

import types

ATOMIC = (int, float, str, bytes, bool, type(None), complex, type(Ellipsis), type(NotImplemented))
import typing as _typing

IDENTITY_LEAVES = (
    type, types.FunctionType, types.BuiltinFunctionType, types.ModuleType, types.MethodType, types.LambdaType,
    staticmethod, classmethod, property,
    # typing aliases such as KeyedList[KLeaf, str] (stored by keyed containers as their type): immutable by convention
    type(_typing.List[int]), types.GenericAlias, type(_typing.Union[int, str]), _typing.TypeVar,
)

SKIP_DICT_KEYS = ()


class Snapshot:
    __slots__ = ("nodes", "keep", "order")

    def __init__(self):
        self.nodes = {}  # path -> descriptor tuple
        self.keep = []  # strong refs

    def __eq__(self, other):
        return self.nodes == other.nodes

    def diff(self, other, limit=6):
        """Human-readable differences self(before) -> other(after)."""
        out = []
        for p in self.nodes:
            if p not in other.nodes:
                out.append(f"{p}: removed (was {self.nodes[p]})")
            elif self.nodes[p] != other.nodes[p]:
                out.append(f"{p}: {self.nodes[p]} -> {other.nodes[p]}")
            if len(out) >= limit:
                return out
        for p in other.nodes:
            if p not in self.nodes:
                out.append(f"{p}: added ({other.nodes[p]})")
                if len(out) >= limit:
                    break
        return out

    def changed_paths(self, other):
        out = []
        for p in self.nodes:
            if p not in other.nodes or self.nodes[p] != other.nodes[p]:
                out.append(p)
        for p in other.nodes:
            if p not in self.nodes:
                out.append(p)
        return out


def _leaf_repr(o):
    try:
        return repr(o)
    except Exception:
        return f"<{type(o).__name__}>"


def snap(roots, skip_instance_keys=()):
    """
    roots: dict name -> object. skip_instance_keys: __dict__ keys never descended
    into / recorded (used for harness-private bookkeeping attributes only).
    """
    s = Snapshot()
    seen = {}
    unordered = set()
    stack = [(name, obj) for name, obj in reversed(list(roots.items()))]
    nodes, keep = s.nodes, s.keep
    while stack:
        path, o = stack.pop()
        keep.append(o)
        if isinstance(o, ATOMIC):
            nodes[path] = ("v", type(o).__name__, _leaf_repr(o))
            continue
        oid = id(o)
        if isinstance(o, types.MethodType):
            nodes[path] = ("method", id(o.__func__), id(o.__self__))
            continue
        if isinstance(o, IDENTITY_LEAVES):
            nodes[path] = ("ident", type(o).__name__, oid)
            continue
        if oid in seen:
            nodes[path] = ("ref", seen[oid])
            continue
        seen[oid] = path
        if isinstance(o, (list, tuple)):
            nodes[path] = ("seq", type(o).__name__, oid, len(o))
            for i in range(len(o) - 1, -1, -1):
                stack.append((f"{path}[{i}]", o[i]))
            continue
        if isinstance(o, dict):
            keys = list(o.keys())
            if oid in unordered:
                keys.sort(key=_leaf_repr)  # the index of a keyed *set*: which items it holds is its state, their order is not
            nodes[path] = ("map", type(o).__name__, oid, tuple(_leaf_repr(k) for k in keys))
            for k in reversed(keys):
                stack.append((f"{path}[{_leaf_repr(k)}]", o[k]))
                if not isinstance(k, ATOMIC):
                    stack.append((f"{path}<key {_leaf_repr(k)}>", k))
            continue
        if isinstance(o, (set, frozenset)):
            elems = sorted(o, key=_leaf_repr)
            nodes[path] = ("set", type(o).__name__, oid, tuple(_leaf_repr(e) for e in elems))
            for e in reversed(elems):
                if not isinstance(e, ATOMIC):
                    stack.append((f"{path}{{{_leaf_repr(e)}}}", e))
            continue
        d = getattr(o, "__dict__", None)
        if isinstance(d, dict):
            keys = [k for k in d.keys() if k not in skip_instance_keys]
            if type(o).__name__ == "KeyedSet" and isinstance(d.get("_dict"), dict):
                unordered.add(id(d["_dict"]))
            nodes[path] = ("obj", type(o).__name__, oid, tuple(keys))
            for k in reversed(keys):
                stack.append((f"{path}.{k}", d[k]))
            continue
        nodes[path] = ("opaque", type(o).__name__, oid, _leaf_repr(o))
    return s


def mutable_nodes(root, stop_at=()):
    """ids -> object for every mutable container / object with __dict__ reachable from root."""
    out = {}
    stack = [root]
    stop = {id(x) for x in stop_at}
    while stack:
        o = stack.pop()
        if isinstance(o, ATOMIC) or isinstance(o, IDENTITY_LEAVES):
            continue
        oid = id(o)
        if oid in out or oid in stop:
            continue
        if isinstance(o, (list, dict, set)):
            out[oid] = o
            if isinstance(o, dict):
                stack.extend(o.values())
                stack.extend(k for k in o.keys() if not isinstance(k, ATOMIC))
            else:
                stack.extend(o)
            continue
        if isinstance(o, (tuple, frozenset)):
            stack.extend(o)  # immutable shell, mutable contents possible
            continue
        d = getattr(o, "__dict__", None)
        if isinstance(d, dict):
            out[oid] = o
            stack.extend(d.values())
    return out


# ---------------------------------------------------------------------------
# abstract state
# ---------------------------------------------------------------------------

ABSENT = "<absent>"


def is_spec_instance(o):
    return hasattr(type(o), "__spec_class__") and not isinstance(o, type)


def alpha(v, _depth=0):
    """Plain-data abstraction of a value (spec instances -> ('spec', class name, {attr: alpha}))."""
    if _depth > 12:
        return "<deep>"
    if isinstance(v, ATOMIC):
        return v
    if isinstance(v, list):
        return [alpha(x, _depth + 1) for x in v]
    if isinstance(v, tuple):
        return tuple(alpha(x, _depth + 1) for x in v)
    if isinstance(v, dict):
        return {k: alpha(x, _depth + 1) for k, x in v.items()}
    if isinstance(v, (set, frozenset)):
        return frozenset(alpha(x, _depth + 1) for x in v)
    tname = type(v).__name__
    if tname == "KeyedList" and hasattr(v, "_list"):
        return ("KeyedList", [alpha(x, _depth + 1) for x in v._list])
    if tname == "KeyedSet" and hasattr(v, "_dict"):
        return ("KeyedSet", {k: alpha(x, _depth + 1) for k, x in v._dict.items()})
    if is_spec_instance(v):
        return (
            "spec",
            tname,
            {k: alpha(x, _depth + 1) for k, x in v.__dict__.items() if not k.startswith("__spec_class")},
        )
    if isinstance(v, IDENTITY_LEAVES):
        return ("ident", id(v))
    d = getattr(v, "__dict__", None)
    if isinstance(d, dict):
        return ("obj", tname, {k: alpha(x, _depth + 1) for k, x in d.items()})
    return ("opaque", repr(v))
