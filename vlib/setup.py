"""MANIFEST.setup_cmd: nothing to build; verify the interpreter and imports the monitors rely on."""

import os
import sys

sys.path.insert(0, os.path.dirname(os.path.dirname(os.path.abspath(__file__))))


def main():
    assert sys.version_info >= (3, 12), "sys.monitoring (3.12+) is required for failpoints and the scheduler"
    import sys as _s

    assert hasattr(_s, "monitoring")
    sys.path.insert(0, "/repo")
    from vlib import core

    path = core.assert_repo_under_test()
    import lazy_object_proxy  # noqa: F401  (library dependency)
    import inflect  # noqa: F401

    print(f"setup ok: python {sys.version.split()[0]}, spec_classes from {path}")


if __name__ == "__main__":
    main()
