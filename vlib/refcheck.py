"""
Independent reference type checker.

Annotations are described by *type terms* (plain tuples owned by the harness).
`build(term, env)` turns a term into the real annotation object handed to the
library; `conforms(value, term, env)` decides conformance from the term alone,
following the typing documentation and the statement of C15/C03. It never looks
at a typing object and shares no code with spec_classes.utils.type_checking.

Terms
    ("any",)
    ("cls", name)                      name in env["classes"] or a builtin name
    ("list", T, style) ("set", T, style) ("dict", K, V, style)
    ("tuple", [T1..Tn], style)         fixed length (n may be 0)
    ("vtuple", T, style)               Tuple[T, ...]
    ("type", T|("any",), style)        Type[T]
    ("union", [T..], style)            style "typing" | "pep604"
    ("optional", T)
    ("literal", [v..])
    ("bounded", base, ge, gt, le, lt)  base "int" | "float"
    ("validated", predname)
    ("klist", T, K) ("kset", T, K)     KeyedList[T, K] / KeyedSet[T, K]
style: "typing" (typing.List[...]) or "pep585" (list[...])
"""

from __future__ import annotations

import typing

BUILTINS = {
    "int": int,
    "float": float,
    "str": str,
    "bool": bool,
    "bytes": bytes,
    "none": type(None),
    "object": object,
}

PREDICATES = {
    "even": lambda v: isinstance(v, int) and not isinstance(v, bool) and v % 2 == 0,
    "nonempty_str": lambda v: isinstance(v, str) and len(v) > 0,
    "truthy": lambda v: bool(v),
}


def resolve_class(name, env):
    if name in BUILTINS:
        return BUILTINS[name]
    return env["classes"][name]


def subclass_conforms(cls, term, env):
    """Type[term]: is the class `cls` a subclass of what `term` denotes (origin class for parameterised terms)?"""
    kind = term[0]
    if kind == "any":
        return True
    if kind == "cls":
        return issubclass(cls, resolve_class(term[1], env))
    if kind == "none_literal":
        return issubclass(cls, type(None))
    if kind in ("union",):
        return any(subclass_conforms(cls, t, env) for t in term[1])
    if kind == "optional":
        return issubclass(cls, type(None)) or subclass_conforms(cls, term[1], env)
    if kind == "literal":
        return False
    origin = {"list": list, "set": set, "dict": dict, "tuple": tuple, "vtuple": tuple, "type": type}.get(kind)
    if origin is not None:
        return issubclass(cls, origin)
    raise ValueError(f"Type[{term!r}] not modelled")


def build(term, env):
    """Real annotation object for `term`."""
    kind = term[0]
    if kind == "any":
        return typing.Any
    if kind == "cls":
        return resolve_class(term[1], env)
    if kind == "none_literal":
        return None  # the literal None as a type argument (PEP 585 generics keep it as is; it stands for NoneType)
    if kind == "list":
        t = build(term[1], env)
        return typing.List[t] if term[2] == "typing" else list[t]
    if kind == "set":
        t = build(term[1], env)
        return typing.Set[t] if term[2] == "typing" else set[t]
    if kind == "dict":
        k, v = build(term[1], env), build(term[2], env)
        return typing.Dict[k, v] if term[3] == "typing" else dict[k, v]
    if kind == "tuple":
        ts = tuple(build(t, env) for t in term[1])
        if term[2] == "typing":
            return typing.Tuple[ts] if ts else typing.Tuple[()]
        return tuple[ts] if ts else tuple[()]
    if kind == "vtuple":
        t = build(term[1], env)
        return typing.Tuple[t, ...] if term[2] == "typing" else tuple[t, ...]
    if kind == "type":
        t = build(term[1], env)
        return typing.Type[t] if term[2] == "typing" else type[t]
    if kind == "union":
        ts = [build(t, env) for t in term[1]]
        if term[2] == "typing":
            return typing.Union[tuple(ts)]
        out = ts[0]
        for t in ts[1:]:
            out = out | t
        return out
    if kind == "optional":
        return typing.Optional[build(term[1], env)]
    if kind == "literal":
        return typing.Literal[tuple(term[1])]
    if kind == "bounded":
        from spec_classes.types import bounded

        kw = {k: v for k, v in zip(("ge", "gt", "le", "lt"), term[2:6]) if v is not None}
        return bounded(BUILTINS[term[1]], **kw)
    if kind == "validated":
        from spec_classes.types import validated

        return validated(PREDICATES[term[1]], name=term[1])
    if kind == "klist":
        from spec_classes.types import KeyedList

        return KeyedList[build(term[1], env), build(term[2], env)]
    if kind == "kset":
        from spec_classes.types import KeyedSet

        return KeyedSet[build(term[1], env), build(term[2], env)]
    raise ValueError(f"unknown term {term!r}")


def label(term):
    kind = term[0]
    if kind == "any":
        return "Any"
    if kind == "cls":
        return term[1]
    if kind == "none_literal":
        return "None"
    if kind in ("list", "set", "vtuple", "type"):
        names = {"list": "List", "set": "Set", "vtuple": "Tuple", "type": "Type"}
        inner = label(term[1]) + (", ..." if kind == "vtuple" else "")
        nm = names[kind] if term[2] == "typing" else names[kind].lower()
        return f"{nm}[{inner}]"
    if kind == "dict":
        nm = "Dict" if term[3] == "typing" else "dict"
        return f"{nm}[{label(term[1])}, {label(term[2])}]"
    if kind == "tuple":
        nm = "Tuple" if term[2] == "typing" else "tuple"
        return f"{nm}[{', '.join(label(t) for t in term[1]) or '()'}]"
    if kind == "union":
        if term[2] == "typing":
            return f"Union[{', '.join(label(t) for t in term[1])}]"
        return " | ".join(label(t) for t in term[1])
    if kind == "optional":
        return f"Optional[{label(term[1])}]"
    if kind == "literal":
        return f"Literal{list(term[1])!r}"
    if kind == "bounded":
        b = ",".join(f"{k}={v}" for k, v in zip(("ge", "gt", "le", "lt"), term[2:6]) if v is not None)
        return f"bounded({term[1]},{b})"
    if kind == "validated":
        return f"validated({term[1]})"
    if kind in ("klist", "kset"):
        nm = "KeyedList" if kind == "klist" else "KeyedSet"
        return f"{nm}[{label(term[1])}, {label(term[2])}]"
    return repr(term)


def _is_real_number(v):
    return isinstance(v, (int, float))  # bool is an int; Fraction etc. are kept out of the pools


def conforms(value, term, env):
    """Does `value` conform to the annotation described by `term`?"""
    kind = term[0]
    if kind == "any":
        return True
    if kind == "cls":
        name = term[1]
        if name == "float":
            return _is_real_number(value)  # "int accepted where float is declared"
        return isinstance(value, resolve_class(name, env))
    if kind == "list":
        return type(value) is not tuple and isinstance(value, list) and all(conforms(x, term[1], env) for x in value)
    if kind == "set":
        return isinstance(value, set) and all(conforms(x, term[1], env) for x in value)
    if kind == "dict":
        return isinstance(value, dict) and all(
            conforms(k, term[1], env) and conforms(v, term[2], env) for k, v in value.items()
        )
    if kind == "tuple":
        return (
            isinstance(value, tuple)
            and len(value) == len(term[1])
            and all(conforms(x, t, env) for x, t in zip(value, term[1]))
        )
    if kind == "vtuple":
        return isinstance(value, tuple) and all(conforms(x, term[1], env) for x in value)
    if kind == "none_literal":
        return value is None
    if kind == "type":
        return isinstance(value, type) and subclass_conforms(value, term[1], env)
    if kind == "union":
        return any(conforms(value, t, env) for t in term[1])
    if kind == "optional":
        return value is None or conforms(value, term[1], env)
    if kind == "literal":
        for choice in term[1]:
            try:
                if value == choice:
                    return True
            except Exception:
                pass
        return False
    if kind == "bounded":
        base, ge, gt, le, lt = term[1:6]
        if base == "int":
            if not isinstance(value, int):
                return False
        elif not _is_real_number(value):
            return False
        if ge is not None and not value >= ge:
            return False
        if gt is not None and not value > gt:
            return False
        if le is not None and not value <= le:
            return False
        if lt is not None and not value < lt:
            return False
        return True
    if kind == "validated":
        return bool(PREDICATES[term[1]](value))
    if kind in ("klist", "kset"):
        cls = env["classes"]["KeyedList" if kind == "klist" else "KeyedSet"]
        if not isinstance(value, cls):
            return False
        keyfn = env.get("keyfn") or (lambda it: getattr(it, "k"))
        for item in list(value):
            if not conforms(item, term[1], env):
                return False
            try:
                k = keyfn(item)
            except Exception:
                return False
            if not conforms(k, term[2], env):
                return False
        # ... and the keys the container itself goes by (a key function may disagree with the items' key attribute)
        try:
            own_keys = list(value.keys())
        except Exception:
            return False
        return all(conforms(k, term[2], env) for k in own_keys)
    raise ValueError(f"unknown term {term!r}")


def depth(term):
    kind = term[0]
    if kind in ("any", "cls", "literal", "bounded", "validated", "none_literal"):
        return 0
    if kind in ("list", "set", "vtuple", "optional", "type"):
        return 1 + depth(term[1])
    if kind == "dict":
        return 1 + max(depth(term[1]), depth(term[2]))
    if kind in ("tuple", "union"):
        return 1 + max([depth(t) for t in term[1]] or [0])
    if kind in ("klist", "kset"):
        return 1 + max(depth(term[1]), depth(term[2]))
    return 0
