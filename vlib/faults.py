"""
Fault injection for the runtime monitors.

* Probe: every harness-generated user callback (transform, preparer, item
  preparer, key function, __post_init__, __post_copy__, property getter, ...)
  calls PROBE.enter(name) first. An armed probe raises InjectedFault at the
  chosen (name, i-th invocation). Invocations are logged so the harness can
  enumerate every (callback, i) of an operation.

* LineFailpoints: a sys.monitoring LINE callback that counts statement-start
  events in library code (files under the repo's spec_classes/ directory and
  "<string>" code objects = generated method wrappers) and raises
  InjectedFault at event n ("source-free failpoints").
"""

from __future__ import annotations

import os
import sys


class InjectedFault(Exception):
    """Raised by the harness inside user callbacks / at library lines."""


class Probe:
    def __init__(self):
        self.log = []  # names in invocation order (since last reset)
        self.counts = {}
        self.armed = None  # (name, index)
        self.fired = False
        self.total = {}
        self.actions = []  # [(label prefix, fn(label, obj))] run inside the callback (after the fault decision)

    def reset(self):
        self.log = []
        self.counts = {}
        self.armed = None
        self.fired = False

    def arm(self, name, index):
        self.reset()
        self.armed = (name, index)

    def enter(self, name, obj=None):
        i = self.counts.get(name, 0)
        self.counts[name] = i + 1
        self.total[name] = self.total.get(name, 0) + 1
        self.log.append(name)
        if self.armed is not None and self.armed == (name, i) and not self.fired:
            self.fired = True
            raise InjectedFault(f"injected fault in callback {name} (invocation #{i})")
        for prefix, fn in self.actions:
            if name.startswith(prefix):
                fn(name, obj)

    def invocations(self):
        """[(name, i)] for every callback invocation recorded since reset."""
        seen = {}
        out = []
        for n in self.log:
            i = seen.get(n, 0)
            seen[n] = i + 1
            out.append((n, i))
        return out


class LineFailpoints:
    """
    Count (and optionally abort at) executed statement starts of library code.
    Use as:  with fp.session(arm_at=None|n): <operation>; then fp.count / fp.fired
    """

    TOOL = 1  # sys.monitoring.DEBUGGER_ID is 0; use a distinct slot (1 = COVERAGE_ID)

    def __init__(self, repo_root):
        self.prefix = os.path.join(os.path.realpath(repo_root), "spec_classes") + os.sep
        self.count = 0
        self.arm_at = None
        self.fired = False
        self.fired_at = None
        self.active = False
        self._registered = False
        self._interesting = {}
        self._with_lines = {}

    def _is_library(self, code):
        r = self._interesting.get(code)
        if r is None:
            fn = code.co_filename
            r = fn.startswith(self.prefix) or fn == "<string>"
            self._interesting[code] = r
        return r

    def _on_line(self, code, line):
        if not self.active:
            return sys.monitoring.DISABLE
        if not self._is_library(code):
            return sys.monitoring.DISABLE
        n = self.count
        self.count = n + 1
        if self.arm_at is not None and n == self.arm_at and not self.fired and not self._is_with_line(code, line):
            self.fired = True
            self.fired_at = (code.co_filename.replace(self.prefix, ""), line, code.co_name, line - code.co_firstlineno)
            raise InjectedFault(f"injected fault at library line event #{n} ({self.fired_at[0]}:{line} in {code.co_name})")
        return None

    def _is_with_line(self, code, line):
        """
        `with` lines are visited twice: before __enter__ and again for the exit sequence, where an injected
        exception would skip __exit__ altogether (the CPython async-exception race, not a statement boundary).
        They are never used as abort points.
        """
        key = (code.co_filename, line)
        r = self._with_lines.get(key)
        if r is None:
            import linecache

            text = linecache.getline(code.co_filename, line).strip()
            r = text.startswith(("with ", "async with "))
            self._with_lines[key] = r
        return r

    def _ensure(self):
        if not self._registered:
            mon = sys.monitoring
            if mon.get_tool(self.TOOL) is None:
                mon.use_tool_id(self.TOOL, "verif-failpoints")
            mon.register_callback(self.TOOL, mon.events.LINE, self._on_line)
            self._registered = True

    def start(self, arm_at=None):
        self._ensure()
        self.count = 0
        self.arm_at = arm_at
        self.fired = False
        self.fired_at = None
        self.active = True
        sys.monitoring.set_events(self.TOOL, sys.monitoring.events.LINE)
        sys.monitoring.restart_events()

    def stop(self):
        self.active = False
        sys.monitoring.set_events(self.TOOL, 0)

    class _Session:
        def __init__(self, fp, arm_at):
            self.fp, self.arm_at = fp, arm_at

        def __enter__(self):
            self.fp.start(self.arm_at)
            return self.fp

        def __exit__(self, *exc):
            self.fp.stop()
            return False

    def session(self, arm_at=None):
        return LineFailpoints._Session(self, arm_at)
