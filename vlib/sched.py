"""
Deterministic thread scheduler built on sys.monitoring LINE events.

N real threads run harness functions; exactly one holds the *baton*. Every
statement start in library code (files under the repo's spec_classes/ and
"<string>" generated wrappers) executed by a managed thread is a scheduling
point: the callback consults the schedule and, to preempt, releases the next
thread's semaphore and blocks on its own. Lock waits are made visible by
replacing the library's locks with CoopRLock (same semantics; a thread that
would block marks itself blocked and passes the baton). Any schedule produced
is a real one (threads really run the real code in that order); preemption is
at line granularity, so the exploration under-approximates.

Schedules
  directives  [(thread, local_step, target_or_None), ...]: when `thread` is about to execute its
              local_step-th scheduling point, switch to `target` (default: next runnable thread).
  pct         random priorities + priority change points (PCT-style) beyond the enumeration bound.
"""

from __future__ import annotations

import os
import sys
import threading
import time


class Deadlock(Exception):
    pass


class Result:
    def __init__(self):
        self.outcomes = []  # per thread: ("returned", value) | ("raised", exc)
        self.trace = []  # switches: (from, local_step, "file:line", to)
        self.steps = []  # scheduling points executed per thread
        self.lines = []  # per thread: [(file, line, func)] when recorded
        self.deadlock = False
        self.timed_out = False

    def trace_id(self):
        return tuple((a, b, d) for a, b, _c, d in self.trace)

    def trace_lines(self):
        return tuple((a, c, d) for a, _b, c, d in self.trace)


class CoopRLock:
    """Re-entrant lock whose waiting is visible to the scheduler (drop-in for threading.RLock in library modules)."""

    def __init__(self, sched=None, reentrant=True):
        self._sched = sched
        self.reentrant = reentrant
        self.owner = None
        self.count = 0
        self._real = getattr(threading, "_verif_real_rlock", threading.RLock)()  # used when no scheduler run is active (plain code paths)

    @property
    def sched(self):
        # resolved at use: locks the library creates at import / decoration time exist before any scheduler does
        return self._sched or Scheduler.current

    def acquire(self, blocking=True, timeout=-1):
        s = self.sched
        if s is None or not s.active:
            return self._real.acquire(blocking, timeout)
        tid = s.my_tid()
        if tid is None:
            return self._real.acquire(blocking, timeout)
        while True:
            if self.owner is None or (self.owner == tid and self.reentrant):
                self.owner = tid
                self.count += 1
                return True
            if not blocking:
                return False
            s.block_on(tid, self)

    def release(self):
        s = self.sched
        if s is None or not s.active or s.my_tid() is None:
            return self._real.release()
        self.count -= 1
        if self.count == 0:
            self.owner = None
            s.wake_waiters(self)

    __enter__ = acquire

    def __exit__(self, *a):
        self.release()

    def locked(self):
        return self.owner is not None


COOP_PROPS = ("C19", "C20")  # checks whose workers make every lock the library creates visible to the scheduler


def patch_threading_for_library():
    """
    Must run before `spec_classes` is imported. threading.RLock / threading.Lock hand out cooperative locks when they are
    called from library code (module level, decoration time, dataclass default factories, ...), so that a thread waiting
    for *any* library lock - however the locking is organised - is seen by the scheduler as blocked (and a cycle of
    waiting threads as a deadlock) instead of silently parking the thread that holds the baton. Outside scheduler
    runs the cooperative lock delegates to a real one.
    """
    if getattr(threading, "_verif_patched", False):
        return
    real_rlock, real_lock = threading.RLock, threading.Lock

    def from_library():
        # the immediate caller only: a lock that threading itself creates inside an Event / Condition / Semaphore on the
        # library's behalf has to stay a real one
        f = sys._getframe(2)
        return f is not None and str(f.f_globals.get("__name__", "")).startswith("spec_classes")

    def RLock(*a, **k):
        return CoopRLock() if from_library() else real_rlock(*a, **k)

    def Lock(*a, **k):
        return CoopRLock(reentrant=False) if from_library() else real_lock(*a, **k)

    threading._verif_real_rlock, threading._verif_real_lock = real_rlock, real_lock
    threading.RLock, threading.Lock = RLock, Lock
    threading._verif_patched = True


class Scheduler:
    TOOL = 2  # sys.monitoring tool id (PROFILER_ID slot), distinct from the failpoint tool
    current = None

    def __init__(self, repo_root):
        self.prefix = os.path.join(os.path.realpath(repo_root), "spec_classes") + os.sep
        self.active = False
        self._registered = False
        self._interesting = {}
        self.extra_code_filter = None
        Scheduler.current = self

    # -- sys.monitoring plumbing ---------------------------------------------------------
    def _is_library(self, code):
        r = self._interesting.get(code)
        if r is None:
            fn = code.co_filename
            r = fn.startswith(self.prefix) or fn == "<string>"
            if r and self.only_files:
                r = fn == "<string>" and self.strings_too or any(fn.endswith(x) for x in self.only_files)
            self._interesting[code] = r
        return r

    def _ensure(self):
        if not self._registered:
            mon = sys.monitoring
            if mon.get_tool(self.TOOL) is None:
                mon.use_tool_id(self.TOOL, "verif-scheduler")
            mon.register_callback(self.TOOL, mon.events.LINE, self._on_line)
            # LINE events stay enabled for the lifetime of the worker (toggling them costs tens of ms per run);
            # `self.active` gates the callback and non-library locations disable themselves on first hit.
            mon.set_events(self.TOOL, mon.events.LINE)
            self._registered = True

    def my_tid(self):
        return self.ident2idx.get(threading.get_ident())

    def _on_line(self, code, line):
        if not self._is_library(code):
            return sys.monitoring.DISABLE
        if not self.active:
            return None
        tid = self.ident2idx.get(threading.get_ident())
        if tid is None:
            return None
        if self.aborting:
            raise Deadlock("scheduler aborted the run")
        k = self.local_step[tid]
        self.local_step[tid] = k + 1
        self.global_step += 1
        if self.record_lines:
            self.lines[tid].append((code.co_filename.replace(self.prefix, ""), line, code.co_name))
        if self.global_step > self.max_steps:
            self.aborting = True
            raise Deadlock("step budget exceeded")
        target = None
        if self.mode == "directives":
            d = self.pending.get(tid)
            if d and d[0][0] == k:
                target = d[0][1]
                d.pop(0)
                want = True
            else:
                want = False
            if want:
                nxt = self._pick(exclude=tid, prefer=target)
                if nxt is not None:
                    self._switch(tid, nxt, f"{code.co_filename.replace(self.prefix, '')}:{line}", k)
        else:  # pct
            if self.global_step in self.change_points:
                self.priority[tid] = min(self.priority) - 1
            best = max((t for t in range(self.n) if self.state[t] == "runnable"), key=lambda t: self.priority[t], default=tid)
            if best != tid and self.priority[best] > self.priority[tid]:
                self._switch(tid, best, f"{code.co_filename.replace(self.prefix, '')}:{line}", k)
        return None

    # -- baton passing ---------------------------------------------------------------------
    def _pick(self, exclude=None, prefer=None):
        if prefer is not None and prefer != exclude and self.state[prefer] == "runnable":
            return prefer
        if self.mode == "pct":
            cands = [t for t in range(self.n) if t != exclude and self.state[t] == "runnable"]
            return max(cands, key=lambda t: self.priority[t]) if cands else None
        order = list(range(self.n))
        if exclude is not None:
            order = order[exclude + 1 :] + order[:exclude]
        for t in order:
            if t != exclude and self.state[t] == "runnable":
                return t
        return None

    def _switch(self, tid, nxt, where, k):
        self.result.trace.append((tid, k, where, nxt))
        self.running = nxt
        self.sems[nxt].release()
        self.sems[tid].acquire()
        if self.aborting:
            raise Deadlock("scheduler aborted the run")

    def block_on(self, tid, lock):
        self.state[tid] = "blocked"
        self.blocked_on[tid] = lock
        nxt = self._pick(exclude=tid)
        if nxt is None:
            self.result.deadlock = True
            self.aborting = True
            self.state[tid] = "runnable"
            for t in range(self.n):
                if t != tid and self.state[t] == "blocked":
                    self.state[t] = "runnable"
                    self.sems[t].release()
            raise Deadlock("all threads blocked")
        self.result.trace.append((tid, self.local_step[tid], "lock-wait", nxt))
        self.running = nxt
        self.sems[nxt].release()
        self.sems[tid].acquire()
        if self.aborting:
            raise Deadlock("scheduler aborted the run")

    def wake_waiters(self, lock):
        for t in range(self.n):
            if self.state[t] == "blocked" and self.blocked_on.get(t) is lock:
                self.state[t] = "runnable"
                self.blocked_on.pop(t, None)

    # -- run -------------------------------------------------------------------------------------
    def _thread_main(self, i, fn):
        self.ident2idx[threading.get_ident()] = i
        self.ready.release()
        self.sems[i].acquire()
        try:
            if self.aborting:
                raise Deadlock("scheduler aborted the run")
            self.result.outcomes[i] = ("returned", fn())
        except BaseException as e:  # noqa
            self.result.outcomes[i] = ("raised", e)
        finally:
            self.state[i] = "done"
            nxt = self._pick(exclude=i)
            if nxt is None:
                # wake blocked threads (they will see `aborting` if nobody can make progress)
                blocked = [t for t in range(self.n) if self.state[t] == "blocked"]
                if blocked:
                    self.result.deadlock = True
                    self.aborting = True
                    for t in blocked:
                        self.state[t] = "runnable"
                        self.sems[t].release()
                elif all(s == "done" for s in self.state):
                    self.all_done.set()
            else:
                self.running = nxt
                self.sems[nxt].release()
            if all(s == "done" for s in self.state):
                self.all_done.set()

    def run(self, fns, directives=None, first=0, pct=None, record_lines=False, max_steps=400000, watchdog=60.0, only_files=None, strings_too=True):
        """
        directives: [(thread, local_step, target_or_None)]; pct: {"priorities": [...], "change_points": [...]}.
        only_files: restrict scheduling points to library files with these suffixes (e.g. ["utils/mutation.py"]).
        """
        self._ensure()
        self.n = len(fns)
        self.result = Result()
        self.result.outcomes = [None] * self.n
        self.sems = [threading.Semaphore(0) for _ in range(self.n)]
        self.state = ["runnable"] * self.n
        self.blocked_on = {}
        self.local_step = [0] * self.n
        self.global_step = 0
        self.lines = [[] for _ in range(self.n)]
        self.record_lines = record_lines
        self.max_steps = max_steps
        self.aborting = False
        self.ident2idx = {}
        self.ready = threading.Semaphore(0)
        self.all_done = threading.Event()
        if only_files != getattr(self, "only_files", None) or strings_too != getattr(self, "strings_too", None):
            self._interesting = {}
            sys.monitoring.restart_events()
        self.only_files = only_files
        self.strings_too = strings_too
        if pct is not None:
            self.mode = "pct"
            self.priority = list(pct["priorities"])
            self.change_points = set(pct["change_points"])
            first = max(range(self.n), key=lambda t: self.priority[t])
        else:
            self.mode = "directives"
            self.pending = {}
            for d in directives or []:
                self.pending.setdefault(d[0], []).append((d[1], d[2] if len(d) > 2 else None))
        threads = [threading.Thread(target=self._thread_main, args=(i, fn), daemon=True) for i, fn in enumerate(fns)]
        for t in threads:
            t.start()
        for _ in threads:
            self.ready.acquire()
        self.active = True
        self.running = first
        self.sems[first].release()
        finished = self.all_done.wait(watchdog)
        self.active = False
        if not finished:
            self.result.timed_out = True
            self.aborting = True
            for s in self.sems:
                s.release()
            for t in threads:
                t.join(1.0)
        else:
            for t in threads:
                t.join(5.0)
        self.result.steps = list(self.local_step)
        self.result.lines = self.lines
        return self.result


def install_coop_locks(sched):
    """Replace the library's locks by cooperative ones (module-global RLock names + the copy-protection singleton's lock)."""
    import importlib

    # NB: `spec_classes.spec_class` the *attribute* is the decorator class (re-exported by the package), so the
    # module has to be fetched through importlib / sys.modules.
    sc = importlib.import_module("spec_classes.spec_class")
    mu = importlib.import_module("spec_classes.utils.mutation")
    assert hasattr(sc, "SpecClassMetadata") and hasattr(mu, "_modules_copyable")

    factory = lambda: CoopRLock(sched)  # noqa: E731
    real_rlock_type = type(getattr(threading, "_verif_real_rlock", threading.RLock)())
    sc.RLock = factory
    mu.RLock = factory
    replaced = 0
    # module-level locks (however the copy protection is organised) ...
    for mod in (sc, mu):
        for name, val in list(vars(mod).items()):
            if isinstance(val, real_rlock_type):
                setattr(mod, name, CoopRLock(sched))
                replaced += 1
    # ... and locks held as attributes of the copy-protection singleton / class
    cp = getattr(mu, "_modules_copyable", None)
    for holder in (cp, getattr(cp, "__instance__", None)):
        if holder is None:
            continue
        try:
            items = list(vars(holder).items())
        except TypeError:
            continue
        for name, val in items:
            if isinstance(val, real_rlock_type):
                try:
                    setattr(holder, name, CoopRLock(sched))
                    replaced += 1
                except (AttributeError, TypeError):
                    pass
    return replaced
