"""
Shared runner infrastructure for the runtime monitors in /verif.

A *check* is a module ``checks.cNN`` exposing

    PROP        property id ("C13")
    LEVEL       evidence level ("exploration" | "fault_enumeration")
    RULE        how cases are generated and what makes one distinct / non-trivial
    ASSUMPTIONS list of strings
    GATES       counters that must be > 0, otherwise the run is INCONCLUSIVE
    plan(tier, seed) -> list of json-able shard parameter dicts
    run(ctx, params) -> None     (executes one shard, reporting through ctx)

Every shard runs in its own subprocess (sys.monitoring state is per process and
a misbehaving library must not take the runner down); results are merged by
``vlib.check``.
"""

from __future__ import annotations

import hashlib
import json
import os
import random
import sys
import time
import traceback
from collections import Counter

VERIF_ROOT = os.path.dirname(os.path.dirname(os.path.abspath(__file__)))
REPO_ROOT = os.environ.get("VERIF_REPO", "/repo")
PYTHON = "/venv/bin/python"
GUARD = "SPEC_CLASSES_VERIF"

MAX_SAMPLES = 6
MAX_VIOLATIONS_PER_SHARD = 40


def assert_repo_under_test():
    """The monitors must observe the working tree at /repo, nothing else."""
    import spec_classes

    path = os.path.realpath(spec_classes.__file__)
    if not path.startswith(os.path.realpath(REPO_ROOT) + os.sep):
        raise RuntimeError(
            f"spec_classes imported from {path}, expected under {REPO_ROOT}"
        )
    return path


def jsonable(obj, depth=0):
    """Best-effort conversion of witnesses / samples to JSON-able data."""
    if depth > 8:
        return repr(obj)[:200]
    if obj is None or isinstance(obj, (bool, int, float, str)):
        return obj
    if isinstance(obj, (list, tuple)):
        return [jsonable(x, depth + 1) for x in obj]
    if isinstance(obj, (set, frozenset)):
        return sorted((jsonable(x, depth + 1) for x in obj), key=repr)
    if isinstance(obj, dict):
        return {str(k): jsonable(v, depth + 1) for k, v in obj.items()}
    try:
        return repr(obj)[:300]
    except Exception as e:  # repr itself may be broken by a mutant
        return f"<unreprable {type(obj).__name__}: {type(e).__name__}>"


def safe_repr(obj, limit=300):
    try:
        r = repr(obj)
    except BaseException as e:  # noqa
        r = f"<repr raised {type(e).__name__}: {e}>"
    return r if len(r) <= limit else r[: limit - 3] + "..."


class Ctx:
    """Per-shard reporting context handed to ``run``."""

    def __init__(self, prop, tier, seed, params, only_case=None):
        self.prop = prop
        self.tier = tier
        self.seed = seed
        self.params = params
        self.only_case = only_case
        self.rng = random.Random(f"{prop}/{seed}/{json.dumps(params, sort_keys=True)}")
        self.counters = Counter()
        self.sigs = set()
        self.samples = []
        self.violations = []
        self.known = Counter()
        self.notes = {}
        self.t0 = time.time()
        self._sample_slots = {}

    # -- bookkeeping -------------------------------------------------------
    def count(self, key, n=1):
        self.counters[key] += n

    def sig(self, *parts):
        """Register a distinct, non-trivial case signature."""
        self.sigs.add("|".join(str(p) for p in parts))

    def sample(self, obj, slot=None):
        """Keep a few written-out cases (at most one per slot if given)."""
        if slot is not None:
            if slot in self._sample_slots:
                return
            self._sample_slots[slot] = True
        if len(self.samples) < MAX_SAMPLES:
            self.samples.append(jsonable(obj))

    def elapsed(self):
        return time.time() - self.t0

    # -- verdicts ----------------------------------------------------------
    def violation(self, monitor, what, *, mechanism=None, features=None, case=None, **details):
        """
        Report a violating execution. ``features`` is the structured witness the
        known-finding matchers look at (never seeds or random values).
        """
        from . import findings

        witness = {
            "property": self.prop,
            "monitor": monitor,
            "what": what,
            "features": jsonable(features or {}),
            "case": jsonable(case),
            "details": jsonable(details),
            "params": self.params,
            "seed": self.seed,
            "tier": self.tier,
        }
        slug = findings.match(witness)
        if slug is not None:
            self.known[slug] += 1
            self.count("known_finding_hits")
            return slug
        if len(self.violations) < MAX_VIOLATIONS_PER_SHARD:
            self.violations.append(witness)
        self.count("violations")
        return None

    def result(self):
        return {
            "counters": dict(self.counters),
            "sigs": sorted(self.sigs),
            "samples": self.samples,
            "violations": self.violations,
            "known": dict(self.known),
            "notes": self.notes,
            "wall_s": self.elapsed(),
        }


def witness_hash(w):
    # `what` is for humans and may contain object ids; the identity of a witness is (monitor, structured features, case)
    key = json.dumps(
        {k: w.get(k) for k in ("property", "monitor", "features", "case")},
        sort_keys=True,
        default=str,
    )
    return hashlib.sha1(key.encode()).hexdigest()[:12]


def run_shard_inprocess(mod, tier, seed, params, only_case=None):
    ctx = Ctx(mod.PROP, tier, seed, params, only_case=only_case)
    try:
        assert_repo_under_test()
        mod.run(ctx, params)
        res = ctx.result()
        res["crashed"] = None
    except BaseException as e:  # noqa: harness failure -> inconclusive, never "held"
        res = ctx.result()
        res["crashed"] = f"{type(e).__name__}: {e}\n{traceback.format_exc()[-3000:]}"
    return res


def load_check(prop):
    import importlib

    sys.path.insert(0, VERIF_ROOT) if VERIF_ROOT not in sys.path else None
    return importlib.import_module(f"checks.{prop.lower()}")
