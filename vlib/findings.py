"""
Known findings: /verif/known-findings.txt (committed, never written at run time).

    open:  property=<id> mechanism=<slug> <what fails>
    fixed: property=<id> <commit> <what failed>

Only `open` lines suppress anything, and only through the matcher registered for
their slug below. A matcher is a predicate over the *structured witness*
(monitor that fired + class-shape / operation features), never over seeds,
hashes or random values, and is the narrowest description of the mechanism.
`fixed` lines match nothing.
"""

from __future__ import annotations

import os
import re

from . import core

_FILE = os.path.join(core.VERIF_ROOT, "known-findings.txt")
_OPEN = None  # {(prop, slug): text}

MATCHERS = {}  # slug -> predicate(witness) -> bool


def matcher(slug):
    def deco(fn):
        MATCHERS[slug] = fn
        return fn

    return deco


def _load():
    global _OPEN
    if _OPEN is not None:
        return _OPEN
    _OPEN = {}
    if os.path.exists(_FILE):
        with open(_FILE) as f:
            for line in f:
                line = line.strip()
                m = re.match(r"open:\s+property=(\S+)\s+mechanism=(\S+)\s+(.*)$", line)
                if m:
                    _OPEN[(m.group(1), m.group(2))] = m.group(3)
    return _OPEN


def match(witness):
    """Return the slug of the open finding that explains this witness, or None."""
    prop = witness["property"]
    for (p, slug), _text in _load().items():
        if p != prop:
            continue
        fn = MATCHERS.get(slug)
        if fn is None:
            continue
        try:
            if fn(witness):
                return slug
        except Exception:
            continue
    return None


def describe(prop, slug):
    return f"mechanism={slug} {_load().get((prop, slug), '')}"


# ---------------------------------------------------------------------------
# Matchers for `open` findings (kept next to the file they interpret).
# Each takes the witness dict built by Ctx.violation: keys property, monitor,
# what, features, case, details.
# ---------------------------------------------------------------------------


def _f(w):
    return w.get("features") or {}


@matcher("inplace-commit-before-dependant-preparer")
def _m_inplace_dependant_preparer(w):
    """
    C04: an in-place *element helper* edits the live collection and then resets an `invalidated_by` dependant, whose default
    is re-prepared by a user preparer; if that preparer raises, the edit of the collection stays (scalar writes and deletions
    are rolled back since e85e4ae). Narrow: element helper, in place, only the receiver changed, the fault was injected in
    a preparer / item preparer of a *dependant* attribute (not an attribute the call targets).
    """
    f = _f(w)
    return (
        w["monitor"] == "raise_leaves_state_unchanged"
        and f.get("hkind") in ("with_item", "update_item", "transform_item", "without_item")
        and f.get("inplace") is True
        and f.get("has_invalidated_by") is True
        and f.get("callback") in ("prep", "iprep")
        and f.get("callback_on_invalidated_dependant") is True
        and f.get("changed") == ["recv"]
    )


@matcher("abort-inside-copy-protection-bookkeeping")
def _m_abort_in_bookkeeping(w):
    """
    C20: an exception injected at the first statements of _modules_copyable.__exit__ - after `with` has called it, before
    the release has begun - leaves the count (and with it the table entry) behind: nothing __exit__ could do has run yet.
    (Since repair of the bookkeeping every other abort point inside __new__/__enter__/__exit__/_release_to is rolled back
    or completed, and a leak there - or after an abort anywhere else, or in a run without injected faults - is a violation.)
    """
    f = _f(w)
    return (
        w["monitor"] == "dispatch_table_restored"
        and f.get("phase") == "line_failpoint"
        and f.get("fault_before_release_begins") is True
        and str(f.get("fault_at", "")) == "utils/mutation.py:__exit__"
    )
