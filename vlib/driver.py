"""
History driver for generated spec classes.

An *operation* is plain data (kind, receiver index, helper name, argument
recipes); `execute` materialises fresh argument objects and performs it on the
real instance, classifying the outcome as returned / raised. `gen_op` draws an
operation for a live receiver from the operation alphabet (constructor calls,
assignment, deletion, every generated helper in every call form, deepcopy,
reads) with a chosen validity class (valid, non-conforming value at one
position, missing target, unknown keyword, raising callback).
"""

from __future__ import annotations

import copy
import dataclasses

from . import classgen as cg
from .classgen import TYPES, BY_NAME
from .core import safe_repr
from .faults import InjectedFault
from .snap import snap

HELPER_KINDS = [
    "with", "update_attr", "transform_attr", "reset_attr",
    "with_item", "update_item", "transform_item", "without_item",
    "update", "transform", "reset",
]


@dataclasses.dataclass
class Step:
    op: dict
    recv: object
    args: list
    kwargs: dict
    outcome: str  # returned | raised
    value: object = None
    exc: BaseException = None
    pre: dict = dataclasses.field(default_factory=dict)
    post: dict = dataclasses.field(default_factory=dict)
    probe_log: list = dataclasses.field(default_factory=list)


def op_src(op):
    """Readable one-line rendering of an operation (for witnesses and samples)."""
    k = op["kind"]
    if k == "construct":
        parts = [cg.src_ext(r) for r in op.get("args", [])] + [f"{n}={cg.src_ext(r)}" for n, r in op.get("kwargs", {}).items()]
        return f"{op['cls']}({', '.join(parts)})"
    t = f"i{op['target']}"
    if k == "setattr":
        return f"{t}.{op['attr']} = {cg.src_ext(op['value'])}"
    if k == "delattr":
        return f"del {t}.{op['attr']}"
    if k == "deepcopy":
        return f"copy.deepcopy({t})"
    if k == "read":
        return f"{t}.{op['attr']}"
    if k == "nested":
        return f"nested-mutation {op['how']} on {t}.{op['attr']}"
    parts = [cg.src_ext(r) for r in op.get("args", [])]
    for n, r in op.get("kwargs", {}).items():
        parts.append(f"{n}={cg.src_ext(r) if isinstance(r, list) else repr(r)}")
    return f"{t}.{op['name']}({', '.join(parts)})"


def _is_recipe(x):
    return isinstance(x, list) and x and isinstance(x[0], str)


def materialise(world, op):
    args = [world.build(r) for r in op.get("args", [])]
    kwargs = {n: (world.build(r) if _is_recipe(r) else r) for n, r in op.get("kwargs", {}).items()}
    return args, kwargs


def perform(world, insts, op, args, kwargs):
    k = op["kind"]
    if k == "construct":
        return world.classes[op["cls"]](*args, **kwargs)
    recv = insts[op["target"]]
    if k == "setattr":
        setattr(recv, op["attr"], args[0])
        return None
    if k == "delattr":
        delattr(recv, op["attr"])
        return None
    if k == "deepcopy":
        return copy.deepcopy(recv)
    if k == "read":
        return getattr(recv, op["attr"])
    if k == "helper":
        return getattr(recv, op["name"])(*args, **kwargs)
    if k == "nested":
        return nested_mutation(recv, op)
    raise ValueError(k)


def nested_mutation(recv, op):
    """Direct in-place mutation of a nested value reachable from one instance (C08 only)."""
    v = recv.__dict__.get(op["attr"])
    how = op["how"]
    if how == "list_append":
        v.append(op["lit"])
    elif how == "dict_set":
        v[op["key"]] = op["lit"]
    elif how == "set_add":
        v.add(op["lit"])
    elif how == "leaf_attr":
        v.v = op["lit"]
    elif how == "leaf_ws_append":
        v.__dict__["ws"].append(op["lit"])
    elif how == "elem_attr":
        items = list(v.values()) if isinstance(v, dict) else list(v)
        items[0].v = op["lit"]
    elif how == "clear":
        v.clear()
    else:
        raise ValueError(how)
    return None


def saturate_caches(world, insts):
    """Read every cached property of every live instance so later reads cannot legitimately add cache entries."""
    for cname, inst in insts_with_class(world, insts):
        for p in world.decl.props_of(cname).values():
            if p.cache:
                try:
                    getattr(inst, p.name)
                except Exception:
                    pass


def insts_with_class(world, insts):
    rev = {cls: name for name, cls in world.classes.items()}
    for inst in insts:
        name = rev.get(type(inst))
        if name is not None:
            yield name, inst


def class_name(world, inst):
    for name, cls in world.classes.items():
        if type(inst) is cls:
            return name
    return None


def class_roots(world):
    """Snapshot roots for class-level state: every public non-callable class attribute of every generated class."""
    roots = {}
    names = list(world.classes) + ["Leaf", "KLeaf"]
    for cname in names:
        cls = world.ns[cname]
        for k, v in list(cls.__dict__.items()):
            if k.startswith("__") or callable(v) or isinstance(v, (property, staticmethod, classmethod)):
                continue
            if hasattr(v, "__get__") and not isinstance(v, (int, str, float, list, dict, set, tuple)):
                continue  # descriptors (spec_property, method descriptors)
            roots[f"cls:{cname}.{k}"] = v
    return roots


def execute(world, insts, op, scopes=("recv", "args"), extra_roots=None, saturate=True, failpoints=None, arm_line=None):
    """
    Perform `op`, taking snapshots before and after for the requested scopes:
      recv  - the receiver            args    - the freshly built argument objects
      all   - every live instance     classes - class-level attributes of every generated class
    Returns a Step. The result (if a new spec instance) is appended to insts by the caller.
    """
    args, kwargs = materialise(world, op)
    recv = insts[op["target"]] if "target" in op else None
    if saturate:
        saturate_caches(world, insts)

    def roots():
        r = {}
        if "recv" in scopes and recv is not None:
            r["recv"] = recv
        if "args" in scopes:
            for i, a in enumerate(args):
                r[f"arg{i}"] = a
            for n, a in kwargs.items():
                if not isinstance(a, (bool, int, float, str, type(None))) and not callable(a):
                    r[f"kw:{n}"] = a
        if "all" in scopes:
            for i, inst in enumerate(insts):
                r[f"i{i}"] = inst
        if "peers" in scopes:
            for i, inst in enumerate(insts):
                if inst is not recv:
                    r[f"i{i}"] = inst
        if "classes" in scopes:
            r.update(class_roots(world))
        if extra_roots:
            r.update(extra_roots)
        return r

    pre_roots = roots()
    pre = snap(pre_roots)
    world.probe.reset() if world.probe.armed is None else None
    step = Step(op=op, recv=recv, args=args, kwargs=kwargs, outcome="returned")
    try:
        if failpoints is not None:
            with failpoints.session(arm_at=arm_line):
                step.value = perform(world, insts, op, args, kwargs)
        else:
            step.value = perform(world, insts, op, args, kwargs)
    except BaseException as e:  # noqa: library may raise anything under fault injection
        if isinstance(e, (KeyboardInterrupt, SystemExit, MemoryError)):
            raise
        step.outcome, step.exc = "raised", e
    step.probe_log = world.probe.invocations()
    step.pre = {"snap": pre, "roots": pre_roots}
    step.post = {"snap": snap(pre_roots)}
    return step


def changed(step, only_prefixes=None):
    """List of human-readable differences between pre and post snapshots (optionally only under given root names)."""
    pre, post = step.pre["snap"], step.post["snap"]
    if pre == post:
        return []
    d = pre.diff(post, limit=8)
    if only_prefixes is not None:
        d = [x for x in d if x.startswith(tuple(only_prefixes))]
    return d


# ---------------------------------------------------------------------------
# operation generation
# ---------------------------------------------------------------------------


_ABSENT = object()


def raw(inst, attr):
    return inst.__dict__.get(attr, _ABSENT)


def required_ctor_kwargs(world, cname, rng):
    """Keyword recipes a constructor call needs (key without default) + a random subset of the others."""
    decl = world.decl
    kw = {}
    key = decl.flag(cname, "key")
    for name, (owner, a) in decl.attrs_of(cname).items():
        if not a.init:
            continue
        needs = name == key and decl.default_of(cname, name) is None
        if needs or rng.random() < 0.4:
            r = cg.conf_recipe(a.tk, rng)
            if name == key:
                r = cg.R_lit(rng.choice(["K1", "K2", "k3"]))
            kw[name] = r
    return kw


def gen_construct(world, rng, cname=None):
    cname = cname or rng.choice(list(world.classes))
    return {"kind": "construct", "cls": cname, "args": [], "kwargs": required_ctor_kwargs(world, cname, rng)}


def _leaf_kwargs(rng, elem="leaf"):
    kw = {"v": cg.R_lit(rng.choice([0, 1, 3, 8]))}
    if elem == "leaf" and rng.random() < 0.3:
        kw["w"] = cg.R_lit(rng.choice(["w", "p"]))
    return kw


def _current_list(v):
    if v is _ABSENT:
        return None
    try:
        return list(v)
    except Exception:
        return None


def _recipe_of_elem(x):
    """Recipe that rebuilds an element equal to x (ints/strs/Leaf/KLeaf)."""
    if isinstance(x, (int, str, float)) or x is None:
        return cg.R_lit(x)
    d = {k: copy.deepcopy(v) for k, v in x.__dict__.items() if not k.startswith("__")}
    if type(x).__name__ == "KLeaf":
        k = d.pop("k", "a")
        return ["kleaf", k, d]
    return ["leaf", d]


def gen_helper(world, rng, insts, target, hkind=None, validity="valid", inplace=None, attr=None):
    """Draw one helper call on insts[target]. Returns op dict (with meta fields hkind/form/validity/attr)."""
    decl = world.decl
    inst = insts[target]
    cname = class_name(world, inst)
    attrs = decl.attrs_of(cname)
    names = list(attrs)
    hkind = hkind or rng.choice(HELPER_KINDS)
    coll_names = [n for n in names if attrs[n][1].info.kind in cg.COLLECTION_KINDS]
    if hkind in ("with_item", "update_item", "transform_item", "without_item") and not coll_names:
        hkind = rng.choice(["with", "transform_attr", "reset_attr", "update"])
    op = {"kind": "helper", "target": target, "hkind": hkind, "validity": validity, "args": [], "kwargs": {}}
    if inplace is None:
        inplace = rng.random() < 0.3
    if inplace:
        op["kwargs"]["_inplace"] = True
    if rng.random() < 0.06:
        op["kwargs"]["_if"] = rng.random() < 0.5
    op["inplace"] = inplace

    def pick(cands):
        if attr is not None and attr in cands:
            return attr
        return rng.choice(cands)

    # ---- top level -------------------------------------------------------
    if hkind == "reset":
        op.update(name="reset", form="reset", attr=None)
        if validity == "unknown_kw":
            op["kwargs"]["no_such_attribute"] = cg.R_lit(1)
        return op
    if hkind == "update":
        chosen = rng.sample(names, min(len(names), rng.randint(1, 3)))
        op.update(name="update", form=f"kw{len(chosen)}", attr=",".join(chosen))
        for i, n in enumerate(chosen):
            tk = attrs[n][1].tk
            op["kwargs"][n] = cg.conf_recipe(tk, rng)
        if validity == "nonconf":
            n = chosen[-1]
            bad = cg.nonconf_recipes(attrs[n][1].tk)
            r, tag = rng.choice(bad)
            op["kwargs"][n] = r
            op["position"] = f"update:{len(chosen)-1}of{len(chosen)}:{tag}"
        elif validity == "unknown_kw":
            op["kwargs"]["no_such_attribute"] = cg.R_lit(1)
        return op
    if hkind == "transform":
        chosen = rng.sample(names, min(len(names), rng.randint(1, 2)))
        op.update(name="transform", form=f"kw{len(chosen)}", attr=",".join(chosen))
        for n in chosen:
            tk = attrs[n][1].tk
            op["kwargs"][n] = ["fn", rng.choice(cg.TRANSFORMS_FOR[tk])]
        if rng.random() < 0.2:
            # whole-instance transform that hands back its input, combined with attribute transforms
            op["args"] = [["fn", "same"]]
            op["form"] = f"fn+kw{len(chosen)}"
        if validity == "raising_cb":
            op["kwargs"][chosen[-1]] = ["fn", "boom"]
        elif validity == "nonconf":
            op["kwargs"][chosen[-1]] = ["fn", cg.bad_transform(rng, tk=attrs[chosen[-1]][1].tk)]
            op["position"] = "transform_result"
        elif validity == "unknown_kw":
            op["kwargs"]["no_such_attribute"] = ["fn", "same"]
        return op

    # ---- scalar helpers ----------------------------------------------------
    if hkind in ("with", "update_attr", "transform_attr", "reset_attr"):
        n = pick(names)
        a = attrs[n][1]
        t = a.info
        op["attr"] = n
        if hkind == "reset_attr":
            op.update(name=f"reset_{n}", form="reset")
            if validity == "unknown_kw":
                op["kwargs"]["no_such_attribute"] = cg.R_lit(1)
            return op
        if hkind == "with":
            op["name"] = f"with_{n}"
            forms = ["value"]
            if t.kind == "spec":
                forms += ["kwargs", "value+kwargs", "dict"]
            if t.kind in cg.COLLECTION_KINDS:
                forms += ["none", "iterable", "noarg"]
            form = rng.choice(forms)
            op["form"] = form
            if form == "value":
                op["args"] = [cg.conf_recipe(a.tk, rng)]
            elif form == "kwargs":
                op["kwargs"].update(_leaf_kwargs(rng))
            elif form == "value+kwargs":
                op["args"] = [cg.conf_recipe(a.tk, rng)]
                op["kwargs"].update(_leaf_kwargs(rng))
            elif form == "dict":
                op["args"] = [cg.R_lit({"v": rng.choice([1, 4])})]
            elif form == "none":
                op["args"] = [cg.R_lit(None)]
            elif form == "noarg":
                pass
            elif form == "iterable":
                base = cg.conf_recipe(a.tk, rng)
                if t.kind == "list" and base[0] == "lit":
                    op["args"] = [["tuple", base[1]]]
                elif t.kind == "set":
                    op["args"] = [["lit", list(base[1])]]
                elif t.kind in ("klist", "kset"):
                    op["args"] = [["list", base[1]]]
                else:
                    op["args"] = [base]
            if validity == "nonconf":
                r, tag = rng.choice(cg.nonconf_recipes(a.tk))
                op["args"] = [r]
                for k_ in [k_ for k_ in op["kwargs"] if not k_.startswith("_")]:
                    del op["kwargs"][k_]
                op["form"], op["position"] = "value", tag
            elif validity == "nonconf_nested" and t.kind == "spec":
                op["args"] = []
                op["kwargs"]["v"] = cg.R_lit("not-an-int")
                op["form"], op["position"] = "kwargs", "nested_attr"
            elif validity == "unknown_kw":
                op["kwargs"]["no_such_attribute"] = cg.R_lit(1)
            return op
        if hkind == "update_attr":
            op["name"] = f"update_{n}"
            if t.kind == "spec":
                form = rng.choice(["kwargs", "value", "value+kwargs"])
                if form in ("value", "value+kwargs"):
                    op["args"] = [cg.conf_recipe(a.tk, rng)]
                if form in ("kwargs", "value+kwargs"):
                    op["kwargs"].update(_leaf_kwargs(rng))
                op["form"] = form
                if validity in ("nonconf", "nonconf_nested"):
                    op["kwargs"]["v"] = cg.R_lit("not-an-int")
                    op["position"] = "nested_attr"
            else:
                op["args"] = [cg.conf_recipe(a.tk, rng)]
                op["form"] = "value"
                if validity == "nonconf":
                    r, tag = rng.choice(cg.nonconf_recipes(a.tk))
                    op["args"], op["position"] = [r], tag
            if validity == "unknown_kw":
                op["kwargs"]["no_such_attribute"] = cg.R_lit(1)
            return op
        if hkind == "transform_attr":
            op["name"] = f"transform_{n}"
            if t.kind == "spec" and rng.random() < 0.2:
                # whole-value transform that hands back its input + per-attribute transforms
                op["args"] = [["fn", rng.choice(["same", "ident_copy"])]]
                op["kwargs"]["v"] = ["fn", "inc"]
                op["form"] = "fn+attr_transforms"
            elif t.kind == "spec" and rng.random() < 0.5:
                op["kwargs"]["v"] = ["fn", "inc"]
                op["form"] = "attr_transforms"
            else:
                op["args"] = [["fn", rng.choice(cg.TRANSFORMS_FOR[a.tk])]]
                op["form"] = "fn"
            if validity == "raising_cb":
                if op["form"] == "fn":
                    op["args"] = [["fn", "boom"]]
                else:
                    op["kwargs"]["v"] = ["fn", "boom"]
            elif validity == "nonconf":
                op["args"] = [["fn", cg.bad_transform(rng, tk=a.tk)]]
                op["kwargs"].pop("v", None)
                op["form"], op["position"] = "fn", "transform_result"
            elif validity == "unknown_kw":
                op["kwargs"]["no_such_attribute"] = ["fn", "same"]
            return op

    # ---- element helpers ------------------------------------------------------
    n = pick(coll_names)
    a = attrs[n][1]
    t = a.info
    sing = t.singular
    op["attr"] = n
    cur = raw(inst, n)
    items = _current_list(cur.values() if isinstance(cur, dict) else cur) if cur is not _ABSENT else None
    length = len(items) if items is not None else 0
    verb = {"with_item": "with", "update_item": "update", "transform_item": "transform", "without_item": "without"}[hkind]
    op["name"] = f"{verb}_{sing}"
    elem = t.elem
    spec_elem = elem in ("leaf", "kleaf")
    missing_target = validity == "missing_target"

    def an_index():
        if missing_target:
            return rng.choice([length, length + 1, -length - 1])
        if length == 0:
            return 0
        return rng.randint(-length, length - 1)

    def a_key(existing=True):
        keys = list(cur.keys()) if isinstance(cur, dict) else [getattr(x, "k", None) for x in (items or [])]
        if missing_target or not keys or not existing:
            return rng.choice(["nokey", "zz9"])
        return rng.choice(keys)

    def an_elem_value(existing=True):
        if existing and items and not missing_target:
            return _recipe_of_elem(rng.choice(items))
        if elem == "int":
            return cg.R_lit(rng.choice([77, 78]))
        if elem == "str":
            return cg.R_lit(rng.choice(["nn", "mm"]))
        if elem == "kleaf":
            return ["kleaf", rng.choice(["nokey", "zz9"]), {}]
        return ["leaf", {"v": 991}]

    def new_elem():
        if elem == "kleaf":
            used = {getattr(x, "k", None) for x in (items or [])}
            free = [k for k in ["a", "b", "c", "d", "e", "f", ""] if k not in used] or ["g"]
            return cg.elem_conf(elem, rng, rng.choice(free))
        return cg.elem_conf(elem, rng)

    bad_elem = None
    if validity == "nonconf":
        bad_elem, tag = rng.choice(cg.elem_nonconf(elem))
        op["position"] = f"element:{tag}"

    if validity == "dup_key" and t.kind == "klist" and items:
        # an element operation that would give two items the same key (ValueError expected, nothing may change)
        j = rng.randrange(length)
        kj = getattr(items[j], "k", "a")
        others = [i for i in range(length) if i != j]
        form = rng.choice(["append_dup"] + (["index_dup", "update_dup", "negindex_dup"] if others else []))
        op["form"] = form
        op["position"] = "duplicate_key"
        if form == "append_dup":
            op["name"] = f"with_{sing}"
            op["hkind"] = "with_item"
            op["args"] = [["kleaf", kj, {"v": 55}]]
        elif form in ("index_dup", "negindex_dup"):
            i = rng.choice(others)
            op["name"] = f"with_{sing}"
            op["hkind"] = "with_item"
            op["args"] = [["kleaf", kj, {"v": 55}]]
            op["kwargs"]["_index"] = i if form == "index_dup" else i - length
        else:
            i = rng.choice(others)
            op["name"] = f"update_{sing}"
            op["hkind"] = "update_item"
            op["args"] = [cg.R_lit(i)]
            op["kwargs"]["k"] = cg.R_lit(kj)
        return op
    if t.kind in ("list", "klist"):
        if hkind == "with_item":
            form = rng.choice(["append", "index", "insert"] + (["kwargs", "index+kwargs"] if spec_elem else []) + (["bare_key"] if elem == "kleaf" else []) + (["by_key"] if t.kind == "klist" and elem == "kleaf" else []))
            if missing_target and form in ("append", "kwargs", "bare_key"):
                form = "index"
            op["form"] = form
            if form == "append":
                op["args"] = [bad_elem or new_elem()]
            elif form == "index":
                op["args"] = [bad_elem or (an_elem_value() if elem == "kleaf" and items and not missing_target and rng.random() < 0.5 else new_elem())]
                op["kwargs"]["_index"] = an_index()
            elif form == "insert":
                op["args"] = [bad_elem or new_elem()]
                op["kwargs"]["_index"] = rng.randint(-length - 1, length + 1)
                op["kwargs"]["_insert"] = True
            elif form == "kwargs":
                if elem == "kleaf":
                    op["kwargs"]["k"] = cg.R_lit(new_elem()[1])
                op["kwargs"].update(_leaf_kwargs(rng, elem))
                if bad_elem is not None:
                    op["kwargs"]["v"] = cg.R_lit("not-an-int")
                    op["position"] = "nested_attr"
            elif form == "index+kwargs":
                op["kwargs"]["_index"] = an_index()
                op["kwargs"].update(_leaf_kwargs(rng, elem))
                if bad_elem is not None:
                    op["kwargs"]["v"] = cg.R_lit("not-an-int")
                    op["position"] = "nested_attr"
            elif form == "bare_key":
                op["args"] = [cg.R_lit(new_elem()[1])] if bad_elem is None else [bad_elem]
            elif form == "by_key":
                op["args"] = [bad_elem or an_elem_value()]
                op["kwargs"]["_index"] = a_key()
        elif hkind == "update_item":
            mode = rng.choice(["index", "value"] + (["key"] if t.kind == "klist" else []))
            by = {"index": rng.choice([True, "default"]), "value": rng.choice([False, "default"]), "key": "default"}[mode]
            addr = an_index() if mode == "index" else (an_elem_value() if mode == "value" else cg.R_lit(a_key()))
            if mode == "value" and elem == "int" and by == "default":
                by = False  # an int argument defaults to index addressing only when it is not of the element type: ambiguous here
            op["form"] = f"{mode}:{by}"
            op["args"] = [addr if _is_recipe(addr) else cg.R_lit(addr)]
            if spec_elem and rng.random() < 0.6:
                op["kwargs"].update(_leaf_kwargs(rng, elem))
                if bad_elem is not None:
                    op["kwargs"]["v"] = cg.R_lit("not-an-int")
                    op["position"] = "nested_attr"
            else:
                op["args"].append(bad_elem or (new_elem() if elem != "kleaf" or not items else _recipe_of_elem(rng.choice(items)) if not missing_target and mode != "index" else new_elem()))
            if by != "default":
                op["kwargs"]["_by_index"] = by
        elif hkind == "transform_item":
            mode = rng.choice(["index", "value"] + (["key"] if t.kind == "klist" else []))
            by = {"index": rng.choice([True, "default"]), "value": rng.choice([False, "default"]), "key": "default"}[mode]
            addr = an_index() if mode == "index" else (an_elem_value() if mode == "value" else cg.R_lit(a_key()))
            if mode == "value" and elem == "int" and by == "default":
                by = False
            op["form"] = f"{mode}:{by}"
            op["args"] = [addr if _is_recipe(addr) else cg.R_lit(addr)]
            fn = rng.choice(cg.ELEM_TRANSFORMS[elem])
            if validity == "raising_cb":
                fn = "boom"
            if validity == "nonconf":
                fn = cg.bad_transform(rng, elem=elem)
                op["position"] = "transform_result"
            if spec_elem and rng.random() < 0.4 and validity not in ("nonconf",):
                op["kwargs"]["v"] = ["fn", "boom" if validity == "raising_cb" else "inc"]
                op["form"] += ":attr_transforms"
            else:
                op["args"].append(["fn", fn])
            if by != "default":
                op["kwargs"]["_by_index"] = by
        else:  # without_item
            mode = rng.choice(["index", "value"] + (["key"] if t.kind == "klist" else []))
            by = {"index": rng.choice([True, "default"]), "value": rng.choice([False, "default"]), "key": "default"}[mode]
            addr = an_index() if mode == "index" else (an_elem_value() if mode == "value" else cg.R_lit(a_key()))
            if mode == "value" and elem == "int" and by == "default":
                by = False
            op["form"] = f"{mode}:{by}"
            op["args"] = [addr if _is_recipe(addr) else cg.R_lit(addr)]
            if by != "default":
                op["kwargs"]["_by_index"] = by
    elif t.kind == "dict":
        key = a_key(existing=rng.random() < 0.6)
        if hkind == "with_item":
            if spec_elem and rng.random() < 0.4:
                op["form"] = "key+kwargs"
                op["args"] = [cg.R_lit(key)]
                if elem == "kleaf":
                    op["kwargs"]["k"] = cg.R_lit("nk")
                op["kwargs"].update(_leaf_kwargs(rng, elem))
                if bad_elem is not None:
                    op["kwargs"]["v"] = cg.R_lit("not-an-int")
                    op["position"] = "nested_attr"
            else:
                op["form"] = "key,value"
                op["args"] = [cg.R_lit(key), bad_elem or new_elem()]
                if validity == "nonconf_key":
                    op["args"][0] = cg.R_lit(rng.choice([1, None]))
                    op["position"] = "key"
        elif hkind == "update_item":
            key = a_key(existing=True)
            op["args"] = [cg.R_lit(key)]
            if spec_elem and rng.random() < 0.6:
                op["form"] = "key+kwargs"
                op["kwargs"].update(_leaf_kwargs(rng, elem))
                if bad_elem is not None:
                    op["kwargs"]["v"] = cg.R_lit("not-an-int")
                    op["position"] = "nested_attr"
            else:
                op["form"] = "key,value"
                op["args"].append(bad_elem or new_elem())
        elif hkind == "transform_item":
            key = a_key(existing=True)
            fn = rng.choice(cg.ELEM_TRANSFORMS[elem])
            if validity == "raising_cb":
                fn = "boom"
            if validity == "nonconf":
                fn, op["position"] = cg.bad_transform(rng, elem=elem), "transform_result"
            op["form"] = "key,fn"
            op["args"] = [cg.R_lit(key), ["fn", fn]]
        else:
            key = a_key(existing=True)
            op["form"] = "key"
            op["args"] = [cg.R_lit(key)]
    else:  # set / kset
        if hkind == "with_item":
            form = rng.choice(["item"] + (["kwargs", "bare_key"] if elem == "kleaf" else []))
            op["form"] = form
            if form == "item":
                op["args"] = [bad_elem or (new_elem() if rng.random() < 0.7 else an_elem_value())]
            elif form == "kwargs":
                op["kwargs"]["k"] = cg.R_lit(new_elem()[1])
                op["kwargs"].update(_leaf_kwargs(rng, elem))
                if bad_elem is not None:
                    op["kwargs"]["v"] = cg.R_lit("not-an-int")
                    op["position"] = "nested_attr"
            else:
                op["args"] = [cg.R_lit(new_elem()[1])] if bad_elem is None else [bad_elem]
        elif hkind == "update_item":
            by_key = t.kind == "kset" and rng.random() < 0.5
            op["form"] = "key" if by_key else "item"
            op["args"] = [cg.R_lit(a_key()) if by_key else an_elem_value()]
            if elem == "kleaf" and rng.random() < 0.6:
                op["kwargs"].update(_leaf_kwargs(rng, elem))
                op["form"] += "+kwargs"
                if bad_elem is not None:
                    op["kwargs"]["v"] = cg.R_lit("not-an-int")
                    op["position"] = "nested_attr"
            else:
                op["args"].append(bad_elem or new_elem())
                op["form"] += ",new"
        elif hkind == "transform_item":
            by_key = t.kind == "kset" and rng.random() < 0.5
            fn = rng.choice(cg.ELEM_TRANSFORMS[elem])
            if validity == "raising_cb":
                fn = "boom"
            if validity == "nonconf":
                fn, op["position"] = cg.bad_transform(rng, elem=elem), "transform_result"
            op["form"] = ("key" if by_key else "item") + ",fn"
            op["args"] = [cg.R_lit(a_key()) if by_key else an_elem_value(), ["fn", fn]]
        else:
            by_key = t.kind == "kset" and rng.random() < 0.5
            op["form"] = "key" if by_key else "item"
            op["args"] = [cg.R_lit(a_key()) if by_key else an_elem_value()]
    if validity == "unknown_kw":
        op["kwargs"]["no_such_attribute"] = cg.R_lit(1)
    return op


VALIDITIES = ["valid", "nonconf", "missing_target", "unknown_kw", "raising_cb", "nonconf_nested", "nonconf_key", "dup_key"]


def gen_state_op(world, rng, insts):
    """A state-building operation (mostly valid) for histories."""
    r = rng.random()
    receivers = [i for i, x in enumerate(insts) if class_name(world, x) is not None]
    if not receivers or r < 0.12:
        return gen_construct(world, rng)
    target = rng.choice(receivers)
    inst = insts[target]
    cname = class_name(world, inst)
    attrs = world.decl.attrs_of(cname)
    if r < 0.27:
        n = rng.choice(list(attrs))
        r_ = cg.conf_recipe(attrs[n][1].tk, rng)
        return {"kind": "setattr", "target": target, "attr": n, "value": r_, "args": [r_]}
    if r < 0.33:
        return {"kind": "delattr", "target": target, "attr": rng.choice(list(attrs))}
    if r < 0.37:
        return {"kind": "deepcopy", "target": target}
    if r < 0.42:
        props = list(world.decl.props_of(cname))
        if props:
            return {"kind": "read", "target": target, "attr": rng.choice(props)}
    validity = "valid" if rng.random() < 0.85 else rng.choice(VALIDITIES[1:])
    return gen_helper(world, rng, insts, target, validity=validity)


def apply_and_register(world, insts, op, **kw):
    """Execute op; register a returned spec instance of a generated class as a new live instance."""
    step = execute(world, insts, op, **kw)
    register_result(world, insts, step)
    return step


MAX_LIVE = 10


def register_result(world, insts, step):
    v = step.value
    if (
        step.outcome == "returned"
        and v is not None
        and len(insts) < MAX_LIVE
        and class_name(world, v) is not None
        and not any(v is x for x in insts)
    ):
        insts.append(v)


def replay(world, ops):
    """Rebuild the state reached by `ops` with fresh instances (same classes). Returns the new instance list."""
    insts = []
    for op in ops:
        try:
            args, kwargs = materialise(world, op)
            v = perform(world, insts, op, args, kwargs)
        except BaseException as e:  # noqa
            if isinstance(e, (KeyboardInterrupt, SystemExit, MemoryError)):
                raise
            continue
        if v is not None and len(insts) < MAX_LIVE and class_name(world, v) is not None and not any(v is x for x in insts):
            insts.append(v)
    world.probe.reset()
    return insts


def describe_history(ops):
    return [op_src(o) for o in ops]


def build_history(world, rng, nops, max_insts=7):
    """One instance of every generated class (this also triggers lazy bootstrapping), then `nops` state-building operations."""
    ops, insts = [], []
    for cname in world.classes:
        op = gen_construct(world, rng, cname)
        apply_and_register(world, insts, op, scopes=(), saturate=False)
        ops.append(op)
    for _ in range(nops):
        op = gen_state_op(world, rng, insts)
        if op["kind"] in ("construct", "deepcopy") and len(insts) >= max_insts:
            continue
        apply_and_register(world, insts, op, scopes=(), saturate=False)
        ops.append(op)
    world.probe.reset()
    return ops, insts


def shape_features(world, cname):
    """Class-shape features of a receiver class (for signatures and known-finding matchers)."""
    d = world.decl
    c = d.cls(cname)
    attrs = d.attrs_of(cname)
    return {
        "cls_kind": "plain_sub" if c.kind == "plain" else ("spec_sub" if c.base else "base"),
        "lazy": not d.nearest_spec(cname).bootstrap,
        "has_key": bool(d.flag(cname, "key")),
        "has_prop": bool(d.props_of(cname)),
        "has_invalidated_by": any(a.invalidated_by for _, a in attrs.values()),
        "delegating_init": any(k.delegating_init for k in d.lineage(cname)),
    }


def gen_any_op(world, rng, insts, validity=None, inplace=None):
    """Any operation of the alphabet (constructor, assignment, deletion, helper), with a validity class."""
    validity = validity or rng.choice(VALIDITIES)
    receivers = [i for i, x in enumerate(insts) if class_name(world, x) is not None]
    r = rng.random()
    if r < 0.12 or not receivers:
        cname = rng.choice(list(world.classes))
        op = gen_construct(world, rng, cname)
        op["hkind"], op["validity"], op["form"] = "construct", validity, "kwargs"
        attrs = world.decl.attrs_of(cname)
        init_names = [n for n, (_o, a) in attrs.items() if a.init]
        if validity == "nonconf" and init_names:
            n = rng.choice(init_names)
            rec, tag = rng.choice(cg.nonconf_recipes(attrs[n][1].tk))
            op["kwargs"][n] = rec
            op["position"] = f"ctor:{tag}"
            op["attr"] = n
        elif validity == "unknown_kw":
            op["kwargs"]["no_such_attribute"] = cg.R_lit(1)
        return op
    target = rng.choice(receivers)
    cname = class_name(world, insts[target])
    attrs = world.decl.attrs_of(cname)
    if r < 0.24:
        n = rng.choice(list(attrs))
        rec = cg.conf_recipe(attrs[n][1].tk, rng)
        op = {"kind": "setattr", "target": target, "attr": n, "hkind": "setattr", "validity": validity, "form": "assign", "inplace": True}
        if validity == "nonconf":
            rec, tag = rng.choice(cg.nonconf_recipes(attrs[n][1].tk))
            op["position"] = tag
        op["value"], op["args"] = rec, [rec]
        return op
    if r < 0.30:
        return {"kind": "delattr", "target": target, "attr": rng.choice(list(attrs)), "hkind": "delattr", "validity": validity, "form": "del", "inplace": True}
    return gen_helper(world, rng, insts, target, validity=validity, inplace=inplace)


# ---------------------------------------------------------------------------
# value slots of an operation (where a value of a known expected type is passed)
# ---------------------------------------------------------------------------

LEAF_ATTR_BAD = {"v": cg.R_lit("not-an-int"), "w": cg.R_lit(5), "ws": cg.R_lit(["x"]), "k": cg.R_lit(5)}


def value_slots(world, insts, op):
    """
    [(where, key, expected)] for every argument slot of `op` that carries a value of a known declared type.
    where = "args" | "kwargs"; expected = ("attr", tk) | ("elem", kind) | ("leafattr", name) | ("dictkey",)
    """
    k = op["kind"]
    out = []
    if k == "construct":
        attrs = world.decl.attrs_of(op["cls"])
        for n in op.get("kwargs", {}):
            if n in attrs:
                out.append(("kwargs", n, ("attr", attrs[n][1].tk)))
        return out
    if "target" not in op:
        return out
    cname = class_name(world, insts[op["target"]])
    attrs = world.decl.attrs_of(cname)
    if k == "setattr":
        return [("args", 0, ("attr", attrs[op["attr"]][1].tk))]
    if k != "helper":
        return out
    hk, form = op["hkind"], op.get("form") or ""
    user_kw = [n for n in op.get("kwargs", {}) if not n.startswith("_")]
    if hk == "update":
        return [("kwargs", n, ("attr", attrs[n][1].tk)) for n in user_kw if n in attrs]
    if hk in ("transform", "transform_attr", "transform_item", "reset", "reset_attr", "without_item"):
        return out
    a = attrs[op["attr"]][1]
    t = a.info
    if hk in ("with", "update_attr"):
        if op["args"] and form in ("value", "value+kwargs", "iterable"):
            out.append(("args", 0, ("attr", a.tk)))
        if t.kind == "spec":
            out += [("kwargs", n, ("leafattr", n)) for n in user_kw]
        return out
    # element helpers
    elem = t.elem
    if elem in ("leaf", "kleaf"):
        out += [("kwargs", n, ("leafattr", n)) for n in user_kw if n in ("v", "w", "ws", "k")]
    if hk == "with_item":
        if t.kind == "dict":
            if op["args"]:
                out.append(("args", 0, ("dictkey",)))
            if len(op["args"]) > 1:
                out.append(("args", 1, ("elem", elem)))
        elif op["args"] and form in ("append", "index", "insert", "by_key", "item"):
            out.append(("args", 0, ("elem", elem)))
    elif hk == "update_item":
        if len(op["args"]) > 1:
            out.append(("args", 1, ("elem", elem)))
    return out


def _equal_twin(cur):
    """A value of another type that compares equal to the int `cur` (1.0 == 1), or None."""
    if isinstance(cur, int) and not isinstance(cur, bool):
        return cg.R_lit(float(cur))
    return None


def substitute_nonconf(op, slot, rng, insts=None):
    """
    Copy of `op` with the value at `slot` replaced by one that does not conform at exactly that position. With `insts`,
    the replacement is sometimes drawn from the receiver's current state: a value of the wrong type that compares equal
    to the one currently stored (an "unchanged value" shortcut must not let it through).
    """
    where, key, expected = slot
    bad_op = copy.deepcopy(op)
    twin = None
    if insts is not None and "target" in op and rng.random() < 0.3:
        state = getattr(insts[op["target"]], "__dict__", {})
        if expected[0] == "attr" and expected[1] in ("int", "int2", "optint", "union", "bnd"):
            twin = _equal_twin(state.get(cg.TYPES[expected[1]].name))
        elif expected[0] == "elem" and expected[1] == "int":
            cur = state.get(op.get("attr"))
            vals = list(cur.values()) if isinstance(cur, dict) else list(cur) if isinstance(cur, (list, set)) else []
            twin = _equal_twin(rng.choice(sorted(vals, key=repr))) if vals else None
    if twin is not None:
        rec, tag = twin, ("equal_value_other_type" if expected[0] == "attr" else "element:equal_value_other_type")
    elif expected[0] == "attr":
        rec, tag = rng.choice(cg.nonconf_recipes(expected[1]))
    elif expected[0] == "elem":
        rec, tag = rng.choice(cg.elem_nonconf(expected[1]))
        tag = "element:" + tag
    elif expected[0] == "leafattr":
        rec, tag = LEAF_ATTR_BAD[expected[1]], f"nested_attr:{expected[1]}"
    else:
        rec, tag = rng.choice([(cg.R_lit(1), "key:int_for_str"), (cg.R_lit(None), "key:none"), (["tuple", [1]], "key:tuple_for_str")])
    if where == "args":
        bad_op["args"][key] = rec
        if bad_op["kind"] == "setattr":
            bad_op["value"] = rec
    else:
        bad_op["kwargs"][key] = rec
    bad_op["validity"] = "nonconf"
    bad_op["position"] = f"{op.get('hkind', op['kind'])}:{where}[{key}]:{tag}"
    return bad_op


def changed_roots(step):
    """
    Names of snapshot roots with a real change. Where an object reachable from one root (typically an argument, or an
    item inside it) merely became *also* reachable from another root visited earlier (the operation stored that very
    object), the path-based snapshot shows a ("ref", other path) node and the paths below it disappear: that is
    aliasing, not a change of the object, and is not attributed to the root.
    """
    pre, post = step.pre["snap"], step.post["snap"]
    if pre == post:
        return []
    roots = sorted(step.pre["roots"], key=len, reverse=True)

    def root_of(p):
        return next((r for r in roots if p == r or p.startswith((r + ".", r + "[", r + "{", r + "<"))), p)

    changed = pre.changed_paths(post)
    alias_prefixes = []
    for p in changed:
        node = post.nodes.get(p)
        if node and node[0] == "ref" and pre.nodes.get(p, ("",))[0] != "ref" and root_of(node[1]) != root_of(p):
            alias_prefixes.append(p)
    # the reverse, and re-targeted references: a node that *was* a reference into another root and now shows the object's
    # own subtree (the other root let go of the shared object, e.g. its attribute was rebound), or now refers to a third
    # root that took over the walk. If the subtree it resolves to is exactly what it resolved to before, the object
    # itself is unchanged.
    def subtree(snapshot, path, depth=0):
        node = snapshot.nodes.get(path)
        while node is not None and node[0] == "ref" and depth < 8:
            path, node, depth = node[1], snapshot.nodes.get(node[1]), depth + 1
        if node is None:
            return None
        pre_len = len(path)
        inside = (path + ".", path + "[", path + "{", path + "<")

        def rel(n):  # references that stay inside the subtree are compared by their relative position
            if n[0] == "ref" and (n[1] == path or n[1].startswith(inside)):
                return ("ref", "<subtree>" + n[1][pre_len:])
            return n

        return {q[pre_len:]: rel(n) for q, n in snapshot.nodes.items() if q == path or q.startswith(inside)}

    unalias_prefixes = []
    for p in changed:
        a, b = pre.nodes.get(p), post.nodes.get(p)
        if a and b and a[0] == "ref" and (b[0] != "ref" or b[1] != a[1]) and root_of(a[1]) != root_of(p):
            sa, sb = subtree(pre, p), subtree(post, p)
            if sa is not None and sa == sb:
                unalias_prefixes.append(p)
    out = set()
    for p in changed:
        if p in alias_prefixes or p in unalias_prefixes:
            continue
        if p not in post.nodes and any(p.startswith((a + ".", a + "[", a + "{", a + "<")) for a in alias_prefixes):
            continue  # below an aliased node: no longer walked from this root
        if p not in pre.nodes and any(p.startswith((a + ".", a + "[", a + "{", a + "<")) for a in unalias_prefixes):
            continue  # below a formerly aliased node: newly walked from this root, equal to what the other root showed
        out.add(root_of(p))
    return sorted(out)
