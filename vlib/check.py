"""
Command line entry of every check:

    /venv/bin/python -m vlib.check C13 --tier quick
    /venv/bin/python -m vlib.check C13 --replay replays/C13/<hash>.json

Exit 0: property held on everything observed (KNOWN-FINDING lines possible).
Exit 1: `VIOLATION property=<id> replay=<path>` printed for an unlisted violation.
Exit 2: INCONCLUSIVE (a deciding monitor was not reached / worker died / watchdog).
"""

from __future__ import annotations

import argparse
import json
import os
import shutil
import subprocess
import sys
import time
from collections import Counter

sys.path.insert(0, os.path.dirname(os.path.dirname(os.path.abspath(__file__))))

from vlib import core, findings  # noqa: E402


def worker_env():
    env = dict(os.environ)
    env["PYTHONHASHSEED"] = "0"
    env["PYTHONPATH"] = f"{core.REPO_ROOT}:{core.VERIF_ROOT}"
    env[core.GUARD] = "1"
    env["PYTHONDONTWRITEBYTECODE"] = "1"
    return env


def run_shards(prop, tier, seed, plans, jobs, timeout, workdir, only_case=None):
    """Run all shards with at most `jobs` concurrent subprocesses."""
    os.makedirs(workdir, exist_ok=True)
    pending = list(enumerate(plans))
    running = {}
    results = [None] * len(plans)
    env = worker_env()
    while pending or running:
        while pending and len(running) < jobs:
            i, params = pending.pop(0)
            out = os.path.join(workdir, f"shard{i}.json")
            log = open(os.path.join(workdir, f"shard{i}.log"), "w")
            cmd = [core.PYTHON, "-m", "vlib.worker", prop, tier, str(seed), out, json.dumps(params)]
            if only_case is not None:
                cmd.append(json.dumps(only_case))
            p = subprocess.Popen(cmd, cwd=core.VERIF_ROOT, env=env, stdout=log, stderr=subprocess.STDOUT)
            running[i] = (p, out, log, time.time())
        time.sleep(0.02)
        for i, (p, out, log, t0) in list(running.items()):
            rc = p.poll()
            if rc is None:
                if time.time() - t0 > timeout:
                    p.kill()
                    p.wait()
                    log.close()
                    results[i] = {"crashed": f"watchdog: shard exceeded {timeout}s", "timeout": True}
                    del running[i]
                continue
            log.close()
            del running[i]
            if os.path.exists(out):
                with open(out) as f:
                    results[i] = json.load(f)
            else:
                with open(os.path.join(workdir, f"shard{i}.log")) as f:
                    tail = f.read()[-2000:]
                results[i] = {"crashed": f"worker exited rc={rc} without result\n{tail}"}
    return results


def merge(results):
    counters = Counter()
    sigs = set()
    samples = []
    violations = []
    known = Counter()
    crashed = []
    notes = {}
    for i, r in enumerate(results):
        if r.get("crashed"):
            crashed.append((i, r["crashed"]))
        counters.update(r.get("counters", {}))
        sigs.update(r.get("sigs", []))
        for s in r.get("samples", []):
            if len(samples) < 8:
                samples.append(s)
        violations.extend(r.get("violations", []))
        known.update(r.get("known", {}))
        for k, v in r.get("notes", {}).items():
            notes.setdefault(k, v)
    return counters, sigs, samples, violations, known, crashed, notes


def main(argv=None):
    ap = argparse.ArgumentParser()
    ap.add_argument("prop")
    ap.add_argument("--tier", default=os.environ.get("VERIF_TIER", "quick"), choices=["quick", "thorough"])
    ap.add_argument("--seed", type=int, default=int(os.environ.get("VERIF_SEED", "0") or 0))
    ap.add_argument("--jobs", type=int, default=int(os.environ.get("VERIF_JOBS", "0") or 0))
    ap.add_argument("--replay", default=None)
    ap.add_argument("--no-evidence", action="store_true")
    args = ap.parse_args(argv)

    prop = args.prop.upper()
    mod = core.load_check(prop)
    jobs = args.jobs or min(16, os.cpu_count() or 4)
    t0 = time.time()

    if args.replay:
        return replay(mod, args.replay, jobs)

    tier, seed = args.tier, args.seed
    plans = mod.plan(tier, seed)
    timeout = getattr(mod, "SHARD_TIMEOUT", {}).get(tier, 900 if tier == "quick" else 7200)
    workdir = os.path.join(core.VERIF_ROOT, ".work", f"{prop}-{tier}-{os.getpid()}")
    try:
        results = run_shards(prop, tier, seed, plans, jobs, timeout, workdir)
    finally:
        shutil.rmtree(workdir, ignore_errors=True)
    counters, sigs, samples, violations, known, crashed, notes = merge(results)

    eval_key = getattr(mod, "EVAL_COUNTER", "judged")
    evaluations = int(counters.get(eval_key, 0))
    inconclusive = []
    for i, why in crashed:
        inconclusive.append(f"shard {i}: {why.strip().splitlines()[0] if why.strip() else why}")
    gates = getattr(mod, "GATES", [eval_key])
    if callable(gates):
        gates = gates(tier)
    for g in gates:
        name, minimum = (g, 1) if isinstance(g, str) else g
        have = sum(counters.get(alt, 0) for alt in name.split("|"))  # "a|b": either counter may satisfy the gate
        if have < minimum:
            inconclusive.append(f"gate {name}={have} < {minimum}")
    for name in getattr(mod, "ZERO_GATES", []):
        if counters.get(name, 0) != 0:
            inconclusive.append(f"{name}={counters[name]} (must be 0: the run was disturbed, nothing is concluded from it)")
    if len(sigs) < 2:
        inconclusive.append(f"distinct_nontrivial={len(sigs)} < 2")

    # replay files for unlisted violations
    vio_lines = []
    seen = set()
    for w in violations:
        h = core.witness_hash(w)
        if h in seen:
            continue
        seen.add(h)
        rdir = os.path.join(core.VERIF_ROOT, "replays", prop)
        os.makedirs(rdir, exist_ok=True)
        rpath = os.path.join(rdir, f"{h}.json")
        with open(rpath, "w") as f:
            json.dump(w, f, indent=1, default=str)
        vio_lines.append((rpath, w))

    wall = time.time() - t0
    evidence = {
        "property_id": prop,
        "tier": tier,
        "seed": seed,
        "level": mod.LEVEL,
        "coverage": {
            "evaluations": evaluations,
            "distinct_nontrivial": len(sigs),
            "rule": mod.RULE,
            "samples": samples,
            "exhaustive": bool(getattr(mod, "EXHAUSTIVE", {}).get(tier, False)) if isinstance(getattr(mod, "EXHAUSTIVE", None), dict) else False,
            "counters": dict(sorted(counters.items())),
            "known_findings_observed": dict(known),
            "shards": len(plans),
            "inconclusive": inconclusive,
            "notes": notes,
        },
        "assumptions": list(getattr(mod, "ASSUMPTIONS", [])),
        "wall_s": round(wall, 2),
        "violations": len(vio_lines),
    }
    if not args.no_evidence:
        edir = os.path.join(core.VERIF_ROOT, "evidence")
        os.makedirs(edir, exist_ok=True)
        with open(os.path.join(edir, f"{prop}.json"), "w") as f:
            json.dump(evidence, f, indent=1, default=str)
            f.write("\n")

    # report
    print(f"[{prop}] tier={tier} seed={seed} shards={len(plans)} wall={wall:.1f}s "
          f"evaluations={evaluations} distinct_nontrivial={len(sigs)}")
    interesting = {k: v for k, v in sorted(counters.items())}
    print(f"[{prop}] counters: {json.dumps(interesting)}")
    for slug, n in sorted(known.items()):
        print(f"KNOWN-FINDING: property={prop} {findings.describe(prop, slug)} [observed {n}x this run]")
    if vio_lines and os.environ.get("VERIF_SUMMARY"):
        classes = Counter()
        for _rp, w in vio_lines:
            f = w.get("features") or {}
            classes[(w["monitor"],) + tuple(f"{k}={f[k]}" for k in sorted(f) if k not in ("label", "len"))] += 1
        for cls, n in classes.most_common(60):
            print(f"  class x{n}: {' '.join(cls)}")
    for rpath, w in vio_lines[:25]:
        print(f"VIOLATION property={prop} replay={rpath}")
        print(f"    monitor={w['monitor']}: {w['what']}")
    if len(vio_lines) > 25:
        print(f"    ... and {len(vio_lines) - 25} more distinct violations")
    if vio_lines:
        return 1
    if inconclusive:
        for why in inconclusive:
            print(f"INCONCLUSIVE property={prop} reason={why}")
        for i, why in crashed[:3]:
            print(f"--- shard {i} ---\n{why}")
        return 2
    print(f"[{prop}] held on everything observed")
    return 0


def replay(mod, path, jobs):
    with open(path) as f:
        w = json.load(f)
    prop = mod.PROP
    workdir = os.path.join(core.VERIF_ROOT, ".work", f"{prop}-replay-{os.getpid()}")
    try:
        results = run_shards(prop, w["tier"], w["seed"], [w["params"]], 1, 7200, workdir, only_case=w.get("case"))
    finally:
        shutil.rmtree(workdir, ignore_errors=True)
    target = core.witness_hash(w)
    r = results[0]
    if r.get("crashed"):
        print(f"INCONCLUSIVE property={prop} reason=replay crashed: {r['crashed']}")
        return 2
    for v in r.get("violations", []):
        if core.witness_hash(v) == target:
            print(f"VIOLATION property={prop} replay={path}")
            print(json.dumps(v, indent=1, default=str))
            return 1
    print(f"[{prop}] replay of {path}: witness not reproduced on the current tree "
          f"({len(r.get('violations', []))} other violations in that shard)")
    return 0


if __name__ == "__main__":
    sys.exit(main())
