"""Run one shard of one check in this process and dump the result as JSON."""

import json
import os
import sys

sys.path.insert(0, os.path.dirname(os.path.dirname(os.path.abspath(__file__))))

from vlib import core  # noqa: E402


def main():
    prop, tier, seed, outfile, params_json = sys.argv[1:6]
    only_case = json.loads(sys.argv[6]) if len(sys.argv) > 6 else None
    from vlib import sched  # (does not import the library)

    if prop in sched.COOP_PROPS:
        assert "spec_classes" not in sys.modules
        sched.patch_threading_for_library()
    mod = core.load_check(prop)
    res = core.run_shard_inprocess(
        mod, tier, int(seed), json.loads(params_json), only_case=only_case
    )
    tmp = outfile + ".tmp"
    with open(tmp, "w") as f:
        json.dump(res, f)
    os.replace(tmp, outfile)


if __name__ == "__main__":
    main()
