"""
Class grammar -> real spec classes + a model-visible description.

A ModuleDecl (plain data) is drawn from a seeded PRNG and rendered to Python
source, which is exec-ed to obtain the real decorated classes. The same
ModuleDecl feeds the reference models, so no oracle consults the library's own
metadata to decide what is expected, and every case can be replayed from source.
"""

from __future__ import annotations

import copy
import dataclasses
import json
import sys
import types
from typing import Any, Dict, List, Optional

from . import faults

# ---------------------------------------------------------------------------
# type table
# ---------------------------------------------------------------------------


@dataclasses.dataclass(frozen=True)
class TypeInfo:
    tk: str
    name: str  # attribute name used for this type key
    ann: str  # annotation source
    term: tuple  # refcheck term
    kind: str  # scalar | spec | list | dict | set | klist | kset
    elem: Optional[str] = None  # element kind for collections: int | str | leaf | kleaf
    singular: Optional[str] = None


_T = "typing"
TYPES: Dict[str, TypeInfo] = {
    t.tk: t
    for t in [
        TypeInfo("int", "x", "int", ("cls", "int"), "scalar"),
        TypeInfo("int2", "y", "int", ("cls", "int"), "scalar"),
        TypeInfo("str", "label", "str", ("cls", "str"), "scalar"),
        TypeInfo("float", "ratio", "float", ("cls", "float"), "scalar"),
        TypeInfo("optint", "opt", "Optional[int]", ("optional", ("cls", "int")), "scalar"),
        TypeInfo("union", "uni", "Union[int, str]", ("union", [("cls", "int"), ("cls", "str")], _T), "scalar"),
        TypeInfo("lit", "mode", "Literal['a', 'b']", ("literal", ["a", "b"]), "scalar"),
        TypeInfo("bnd", "lim", "NonNeg", ("bounded", "int", 0, None, None, None), "scalar"),
        TypeInfo("li", "nums", "List[int]", ("list", ("cls", "int"), _T), "list", "int", "num"),
        TypeInfo("ls", "names", "List[str]", ("list", ("cls", "str"), _T), "list", "str", "name"),
        TypeInfo("dsi", "weights", "Dict[str, int]", ("dict", ("cls", "str"), ("cls", "int"), _T), "dict", "int", "weight"),
        TypeInfo("si", "marks", "Set[int]", ("set", ("cls", "int"), _T), "set", "int", "mark"),
        TypeInfo("ss", "flags", "Set[str]", ("set", ("cls", "str"), _T), "set", "str", "flag"),
        TypeInfo("leaf", "leaf", "Leaf", ("cls", "Leaf"), "spec"),
        TypeInfo("lleaf", "children", "List[Leaf]", ("list", ("cls", "Leaf"), _T), "list", "leaf", "child"),
        TypeInfo("dleaf", "entries", "Dict[str, Leaf]", ("dict", ("cls", "str"), ("cls", "Leaf"), _T), "dict", "leaf", "entry"),
        TypeInfo("lk", "kids", "List[KLeaf]", ("list", ("cls", "KLeaf"), _T), "list", "kleaf", "kid"),
        TypeInfo("dk", "members", "Dict[str, KLeaf]", ("dict", ("cls", "str"), ("cls", "KLeaf"), _T), "dict", "kleaf", "member"),
        TypeInfo("kl", "parts", "KeyedList[KLeaf, str]", ("klist", ("cls", "KLeaf"), ("cls", "str")), "klist", "kleaf", "part"),
        TypeInfo("ks", "units", "KeyedSet[KLeaf, str]", ("kset", ("cls", "KLeaf"), ("cls", "str")), "kset", "kleaf", "unit"),
    ]
}
BY_NAME = {t.name: t for t in TYPES.values()}
COLLECTION_KINDS = ("list", "dict", "set", "klist", "kset")
SEQ_KINDS = ("list", "klist")
SET_KINDS = ("set", "kset")

LEAF_ATTRS = {"v": 0, "w": "w", "ws": []}
KLEAF_ATTRS = {"v": 0}

# ---------------------------------------------------------------------------
# value recipes
# ---------------------------------------------------------------------------


def R_lit(v):
    return ["lit", v]


def build(recipe, ns):
    """Materialise a recipe into a FRESH object using the generated module namespace `ns`."""
    kind = recipe[0]
    if kind == "lit":
        return copy.deepcopy(recipe[1])
    if kind == "set":
        return set(copy.deepcopy(recipe[1]))
    if kind == "tuple":
        return tuple(copy.deepcopy(recipe[1]))
    if kind == "leaf":
        return ns["Leaf"](**copy.deepcopy(recipe[1]))
    if kind == "kleaf":
        return ns["KLeaf"](recipe[1], **copy.deepcopy(recipe[2]))
    if kind == "list":
        return [build(r, ns) for r in recipe[1]]
    if kind == "dict":
        return {k: build(r, ns) for k, r in recipe[1].items()}
    if kind == "klist":
        return ns["KeyedList"][ns["KLeaf"], str]([build(r, ns) for r in recipe[1]])
    if kind == "kset":
        return ns["KeyedSet"][ns["KLeaf"], str]([build(r, ns) for r in recipe[1]])
    if kind == "fn":
        return ns["TRANSFORMS"][recipe[1]]
    if kind == "sentinel":
        return ns[recipe[1]]
    if kind == "obj":
        return ns["Opaque"]()
    if kind == "inst":  # instance of a generated class built from kwargs recipes
        return ns[recipe[1]](**{k: build(r, ns) for k, r in recipe[2].items()})
    raise ValueError(f"unknown recipe {recipe!r}")


def src(recipe):
    """Python source text of a recipe (for generated class bodies and replay scripts)."""
    kind = recipe[0]
    if kind == "lit":
        return repr(recipe[1])
    if kind == "set":
        return "set(" + repr(list(recipe[1])) + ")" if not recipe[1] else "{" + ", ".join(repr(x) for x in recipe[1]) + "}"
    if kind == "tuple":
        return repr(tuple(recipe[1]))
    if kind == "leaf":
        return "Leaf(" + ", ".join(f"{k}={v!r}" for k, v in recipe[1].items()) + ")"
    if kind == "kleaf":
        return "KLeaf(" + ", ".join([repr(recipe[1])] + [f"{k}={v!r}" for k, v in recipe[2].items()]) + ")"
    if kind == "list":
        return "[" + ", ".join(src(r) for r in recipe[1]) + "]"
    if kind == "dict":
        return "{" + ", ".join(f"{k!r}: {src(r)}" for k, r in recipe[1].items()) + "}"
    if kind == "klist":
        return "KeyedList[KLeaf, str]([" + ", ".join(src(r) for r in recipe[1]) + "])"
    if kind == "kset":
        return "KeyedSet[KLeaf, str]([" + ", ".join(src(r) for r in recipe[1]) + "])"
    if kind == "fn":
        return f"TRANSFORMS[{recipe[1]!r}]"
    if kind == "sentinel":
        return recipe[1]
    if kind == "obj":
        return "Opaque()"
    if kind == "inst":
        return f"{recipe[1]}(" + ", ".join(f"{k}={src(r)}" for k, r in recipe[2].items()) + ")"
    raise ValueError(recipe)


def is_mutable_recipe(recipe):
    return recipe[0] not in ("lit",) or isinstance(recipe[1], (list, dict, set))


# -- pools ---------------------------------------------------------------------

_KEYS = ["a", "b", "c", "d"]
_KEYS_FALSY = _KEYS + [""]  # the empty string is a legitimate key


def leaf_recipe(rng):
    kw = {}
    if rng.random() < 0.8:
        kw["v"] = rng.choice([0, 1, 2, 7])
    if rng.random() < 0.3:
        kw["w"] = rng.choice(["w", "q", ""])
    if rng.random() < 0.4:
        kw["ws"] = [rng.choice([0, 1, 5]) for _ in range(rng.randint(0, 2))]
    return ["leaf", kw]


def kleaf_recipe(rng, key=None):
    return ["kleaf", key if key is not None else rng.choice(_KEYS), {"v": rng.choice([0, 1, 2])} if rng.random() < 0.7 else {}]


def elem_conf(elem, rng, key=None):
    if elem == "int":
        return R_lit(rng.choice([0, 1, 2, 3, -1, 5]))
    if elem == "str":
        return R_lit(rng.choice(["", "a", "b", "zz"]))
    if elem == "leaf":
        return leaf_recipe(rng)
    if elem == "kleaf":
        return kleaf_recipe(rng, key)
    raise ValueError(elem)


def elem_nonconf(elem):
    """(recipe, tag) values that do not conform to the element type."""
    if elem == "int":
        return [(R_lit("s"), "str_for_int"), (R_lit(None), "none"), (R_lit(1.5), "float_for_int"), (["obj"], "object")]
    if elem == "str":
        return [(R_lit(3), "int_for_str"), (R_lit(None), "none"), (["obj"], "object")]
    if elem == "leaf":
        return [(R_lit(3), "int_for_spec"), (["kleaf", "a", {}], "other_spec"), (R_lit("s"), "str_for_spec")]
    if elem == "kleaf":
        return [(R_lit(3), "int_for_spec"), (["leaf", {}], "other_spec"), (R_lit(None), "none")]
    raise ValueError(elem)


def conf_recipe(tk, rng, size=None):
    """Fresh conforming value recipe for attribute type `tk`."""
    t = TYPES[tk]
    if tk in ("int", "int2"):
        return R_lit(rng.choice([0, 1, 2, 5, -3, 10]))
    if tk == "str":
        return R_lit(rng.choice(["", "a", "b", "Hello", " pad "]))
    if tk == "float":
        return R_lit(rng.choice([0.0, 1.5, -2.0, 3, 0]))
    if tk == "optint":
        return R_lit(rng.choice([None, 0, 4]))
    if tk == "union":
        return R_lit(rng.choice([0, 3, "", "u"]))
    if tk == "lit":
        return R_lit(rng.choice(["a", "b"]))
    if tk == "bnd":
        return R_lit(rng.choice([0, 1, 9]))
    if tk == "leaf":
        return leaf_recipe(rng)
    n = rng.randint(0, 3) if size is None else size
    if t.kind == "list":
        if t.elem == "kleaf":
            return ["list", [kleaf_recipe(rng, k) for k in rng.sample(_KEYS_FALSY, n)]]
        return ["lit", [build(elem_conf(t.elem, rng), {}) for _ in range(n)]] if t.elem in ("int", "str") else ["list", [elem_conf(t.elem, rng) for _ in range(n)]]
    if t.kind == "dict":
        keys = rng.sample(_KEYS + [""], n)
        if t.elem == "int":
            return ["lit", {k: rng.choice([0, 1, 2, -4]) for k in keys}]
        if t.elem == "kleaf":
            return ["dict", {k: kleaf_recipe(rng, k if k else "e") for k in keys}]
        return ["dict", {k: elem_conf(t.elem, rng) for k in keys}]
    if t.kind == "set":
        pool = [0, 1, 2, 5, -1] if t.elem == "int" else ["", "a", "b", "zz"]
        return ["set", rng.sample(pool, min(n, len(pool)))]
    if t.kind == "klist":
        return ["klist", [kleaf_recipe(rng, k) for k in rng.sample(_KEYS_FALSY, n)]]
    if t.kind == "kset":
        return ["kset", [kleaf_recipe(rng, k) for k in rng.sample(_KEYS_FALSY, n)]]
    raise ValueError(tk)


def nonconf_recipes(tk):
    """(recipe, position tag) values that do not conform to `tk` at exactly one structural position."""
    t = TYPES[tk]
    out = []
    if tk in ("int", "int2"):
        out = [(R_lit("s"), "scalar"), (R_lit(1.5), "scalar_float"), (R_lit(None), "none"), (R_lit([1]), "container_for_scalar")]
    elif tk == "str":
        out = [(R_lit(3), "scalar"), (R_lit(None), "none"), (R_lit(["a"]), "container_for_scalar")]
    elif tk == "float":
        out = [(R_lit("1.0"), "scalar"), (R_lit(None), "none")]
    elif tk == "optint":
        out = [(R_lit("s"), "scalar"), (R_lit(1.5), "scalar_float")]
    elif tk == "union":
        out = [(R_lit(1.5), "scalar_float"), (R_lit(None), "none"), (R_lit([1]), "container_for_scalar")]
    elif tk == "lit":
        out = [(R_lit("c"), "literal_choice"), (R_lit(1), "scalar"), (R_lit(None), "none")]
    elif tk == "bnd":
        out = [(R_lit(-1), "bound"), (R_lit("s"), "scalar"), (R_lit(1.5), "scalar_float")]
    elif tk == "leaf":
        out = [(R_lit(3), "scalar_for_spec"), (["kleaf", "a", {}], "other_spec"), (R_lit({"v": "bad"}), "nested_attr_in_dict"), (R_lit({"nope": 1}), "unknown_key_in_dict")]
    elif t.kind in ("list", "klist"):
        good = elem_conf(t.elem, __import__("random").Random(1), "a")
        for bad, tag in elem_nonconf(t.elem):
            out.append((["list", [good, bad]], f"element:{tag}"))
        out += [(R_lit(5), "non_iterable"), (["obj"], "object")]
        if t.kind == "klist":
            out.append((["list", [["kleaf", "a", {}], ["kleaf", "a", {"v": 1}]]], "duplicate_key"))
            # a ready-made (unparameterised) keyed container: already of the declared container class, only its items are wrong
            for bad, tag in elem_nonconf(t.elem):
                out.append((["klist_raw", [good, bad]], f"ready_made_element:{tag}"))
            # ... or only the keys it goes by are (an int-valued key function where the declared key type is str)
            out.append((["klist_rawint", [good, elem_conf(t.elem, __import__("random").Random(2), "b")]], "ready_made_key:int_for_str"))
    elif t.kind == "dict":
        good = elem_conf(t.elem, __import__("random").Random(1), "a")
        for bad, tag in elem_nonconf(t.elem):
            out.append((["dict", {"a": good, "b": bad}], f"value:{tag}"))
        out.append((["dictk", [[R_lit(1), good]]], "key:int_for_str"))
        out += [(R_lit(5), "non_iterable"), (["list", [good]], "list_for_dict"), (R_lit([["a", 1]]), "pairs_for_dict")]
    elif t.kind in ("set", "kset"):
        good = elem_conf(t.elem, __import__("random").Random(1), "a")
        for bad, tag in elem_nonconf(t.elem):
            if t.kind == "set" and bad[0] == "lit" and isinstance(bad[1], (int, str, float, type(None))):
                out.append((["set", [bad[1]] + ([good[1]] if good[0] == "lit" else [])], f"element:{tag}"))
            else:
                out.append((["list", [good, bad]], f"element:{tag}"))
        out += [(R_lit(5), "non_iterable")]
        if t.kind == "kset":
            for bad, tag in elem_nonconf(t.elem):
                out.append((["kset_raw", [good, bad]], f"ready_made_element:{tag}"))
            out.append((["kset_rawint", [good, elem_conf(t.elem, __import__("random").Random(2), "b")]], "ready_made_key:int_for_str"))
    return out


def build_ext(recipe, ns):
    """build() plus the 'dictk' recipe (dict with non-string keys), used only by non-conforming pools."""
    if recipe[0] == "dictk":
        return {build_ext(k, ns): build_ext(v, ns) for k, v in recipe[1]}
    if recipe[0] in ("klist_raw", "kset_raw"):
        return ns["KeyedList" if recipe[0] == "klist_raw" else "KeyedSet"]([build_ext(r, ns) for r in recipe[1]], key=ns["rawkey"])
    if recipe[0] in ("klist_rawint", "kset_rawint"):
        return ns["KeyedList" if recipe[0] == "klist_rawint" else "KeyedSet"]([build_ext(r, ns) for r in recipe[1]], key=ns["rawkey_int"])
    if recipe[0] == "list":
        return [build_ext(r, ns) for r in recipe[1]]
    if recipe[0] == "dict":
        return {k: build_ext(r, ns) for k, r in recipe[1].items()}
    return build(recipe, ns)


def src_ext(recipe):
    if recipe[0] == "dictk":
        return "{" + ", ".join(f"{src_ext(k)}: {src_ext(v)}" for k, v in recipe[1]) + "}"
    if recipe[0] in ("klist_raw", "kset_raw"):
        return ("KeyedList" if recipe[0] == "klist_raw" else "KeyedSet") + "([" + ", ".join(src_ext(r) for r in recipe[1]) + "], key=rawkey)"
    if recipe[0] in ("klist_rawint", "kset_rawint"):
        return ("KeyedList" if recipe[0] == "klist_rawint" else "KeyedSet") + "([" + ", ".join(src_ext(r) for r in recipe[1]) + "], key=rawkey_int)"
    if recipe[0] == "list":
        return "[" + ", ".join(src_ext(r) for r in recipe[1]) + "]"
    if recipe[0] == "dict":
        return "{" + ", ".join(f"{k!r}: {src_ext(r)}" for k, r in recipe[1].items()) + "}"
    return src(recipe)


# ---------------------------------------------------------------------------
# declarations
# ---------------------------------------------------------------------------


@dataclasses.dataclass
class AttrDecl:
    tk: str
    default: Optional[list] = None  # [style, recipe]; style in lit | attr | factory | field | field_factory
    init: bool = True
    repr: bool = True
    compare: bool = True
    do_not_copy: bool = False  # via Attr(do_not_copy=True)
    invalidated_by: tuple = ()
    preparer: Optional[str] = None  # abs | upper
    item_preparer: Optional[str] = None  # abs | upper
    annotated: bool = True  # False: bare re-default in a subclass body (ownership stays with the parent)
    bare: bool = False  # a subclass re-declares the attribute by annotation only (`x: int`): ownership moves, default and do_not_copy are the parent's

    @property
    def name(self):
        return TYPES[self.tk].name

    @property
    def info(self):
        return TYPES[self.tk]


@dataclasses.dataclass
class PropDecl:
    name: str
    deps: tuple  # attribute names the getter reads
    cache: bool = True
    invalidated_by: tuple = ()
    overridable: bool = True


@dataclasses.dataclass
class ClassDecl:
    name: str
    kind: str = "spec"  # spec | plain
    base: Optional[str] = None
    attrs: List[AttrDecl] = dataclasses.field(default_factory=list)
    key: Optional[str] = None  # attribute name
    key_explicit: bool = False  # whether key= is passed to this class's decorator
    frozen: Optional[bool] = None  # None: not passed to the decorator
    dnc_class: bool = False
    dnc_list: tuple = ()
    bootstrap: bool = True
    overflow: Optional[str] = None
    props: List[PropDecl] = dataclasses.field(default_factory=list)
    post_init: bool = False
    post_copy: bool = False
    delegating_init: bool = False  # hand-written __init__(self, **kwargs) that forwards to the parent class's constructor
    post_copy_writes: bool = False  # __post_copy__ assigns an (unmanaged) attribute on the copy it finalises


@dataclasses.dataclass
class ModuleDecl:
    classes: List[ClassDecl]
    leaf_bootstrap: bool = True
    leaf_frozen: bool = False

    # -- model-visible queries ------------------------------------------------
    def cls(self, name):
        return next(c for c in self.classes if c.name == name)

    def lineage(self, name):
        """[cls, parent, grandparent, ...] (single inheritance in this grammar)."""
        out = []
        c = self.cls(name)
        while c is not None:
            out.append(c)
            c = self.cls(c.base) if c.base else None
        return out

    def nearest_spec(self, name):
        return next(c for c in self.lineage(name) if c.kind == "spec")

    def attrs_of(self, name):
        """Ordered {attr name: (owner class decl, defining AttrDecl)} of managed attributes of class `name`."""
        out = {}
        for c in reversed(self.lineage(name)):
            if c.kind != "spec":
                continue
            for a in c.attrs:
                if a.annotated:
                    out[a.name] = (c, a)  # (re-)declaration: ownership moves, position of an existing name is kept
        return out

    def attr_decl(self, name, attr):
        """The annotated declaration that defines type/flags of `attr` as seen from class `name`."""
        return self.attrs_of(name)[attr][1]

    def default_of(self, name, attr):
        """Nearest default [style, recipe] along the lineage, or None."""
        for c in self.lineage(name):
            for a in c.attrs:
                if a.name == attr:
                    if a.default is not None:
                        return a.default
                    if a.annotated and not a.bare:
                        return None  # declared without default: no default from here on
        return None

    def flag(self, name, what):
        """Effective class-level flag: frozen / key / overflow (inherited unless re-specified)."""
        for c in self.lineage(name):
            if c.kind != "spec":
                continue
            if what == "frozen":
                # decorator default False overrides inheritance unless the library inherits it; modelled by C07
                if c.frozen is not None:
                    return c.frozen
            elif what == "key":
                if c.key_explicit:
                    return c.key
            elif what == "overflow":
                if c.overflow is not None:
                    return c.overflow
        return None if what != "frozen" else False

    def dnc_status(self, name, attr):
        """
        Is `attr` carried by reference into copies of instances of class `name`? True / False / None (not documented).
        A spec class that (re-)declares the attribute decides with its own settings (Attr flag, decorator list or bool);
        a spec class that inherits it keeps the parent's setting unless it passes do_not_copy itself, in which case being
        named decides - an explicit list that leaves out an attribute inherited as do_not_copy is not documented.
        """
        flag = False
        seen = False
        for c in reversed(self.lineage(name)):
            if c.kind != "spec":
                continue
            here = next((a for a in c.attrs if a.name == attr and a.annotated and not a.bare), None)  # (a bare re-declaration says nothing about copying)
            if here is None and not seen:
                continue
            specified = c.dnc_class or bool(c.dnc_list)
            if here is not None:
                seen = True
                flag = bool(here.do_not_copy) or c.dnc_class or attr in c.dnc_list
            elif not specified:
                pass
            elif c.dnc_class or attr in c.dnc_list:
                flag = True
            else:
                flag = None if flag in (True, None) else False
        return flag

    def is_dnc_attr(self, name, attr):
        return self.dnc_status(name, attr) is True

    def preparer_of(self, name, attr):
        """Nearest `_prepare_<attr>` along the lineage (methods are inherited)."""
        for c in self.lineage(name):
            for a in c.attrs:
                if a.name == attr and a.preparer:
                    return a.preparer
        return None

    def item_preparer_of(self, name, attr):
        for c in self.lineage(name):
            for a in c.attrs:
                if a.name == attr and a.item_preparer:
                    return a.item_preparer
        return None

    def props_of(self, name):
        out = {}
        for c in reversed(self.lineage(name)):
            for p in c.props:
                out[p.name] = p
        return out

    # -- rendering --------------------------------------------------------------
    def source(self):
        lines = [HEADER]
        lines.append(LEAF_SRC.format(boot=self.leaf_bootstrap, frozen=", frozen=True" if self.leaf_frozen else ""))
        for c in self.classes:
            lines.append(render_class(self, c))
        return "\n".join(lines)

    def to_json(self):
        return json.loads(json.dumps(dataclasses.asdict(self)))

    @staticmethod
    def from_json(d):
        classes = []
        for c in d["classes"]:
            attrs = [AttrDecl(**{**a, "invalidated_by": tuple(a["invalidated_by"])}) for a in c["attrs"]]
            props = [PropDecl(**{**p, "deps": tuple(p["deps"]), "invalidated_by": tuple(p["invalidated_by"])}) for p in c["props"]]
            classes.append(ClassDecl(**{**c, "attrs": attrs, "props": props, "dnc_list": tuple(c["dnc_list"])}))
        return ModuleDecl(classes=classes, leaf_bootstrap=d["leaf_bootstrap"], leaf_frozen=d.get("leaf_frozen", False))


HEADER = """\
import dataclasses
from dataclasses import field
from typing import Any, Dict, List, Literal, Optional, Set, Union
from spec_classes import Attr, spec_class, spec_property, MISSING, UNCHANGED
from spec_classes.types import KeyedList, KeyedSet, bounded

NonNeg = bounded(int, ge=0)


class Opaque:
    def __repr__(self):
        return "Opaque()"


def rawkey(x):
    k = getattr(x, "k", None)
    return k if isinstance(k, str) else f"<{x!r}>"


def rawkey_int(x):
    return sum(map(ord, str(getattr(x, "k", "")))) + 1000
"""

LEAF_SRC = """
@spec_class(bootstrap={boot}{frozen})
class Leaf:
    v: int = 0
    w: str = "w"
    ws: List[int] = []


@spec_class(key="k", bootstrap={boot})
class KLeaf:
    k: str
    v: int = 0
"""

PREPARER_BODY = {
    "abs": "abs(v) if isinstance(v, int) and not isinstance(v, bool) else v",
    "upper": "v.upper() if isinstance(v, str) else v",
    # not idempotent (running one twice shows), used by subclasses that override an inherited preparer
    "inc": "v + 1 if isinstance(v, int) and not isinstance(v, bool) else v",
    "bang": "v + '!' if isinstance(v, str) else v",
}


def model_prepare(which, v):
    if which == "abs":
        return abs(v) if isinstance(v, int) and not isinstance(v, bool) else v
    if which == "upper":
        return v.upper() if isinstance(v, str) else v
    if which == "inc":
        return v + 1 if isinstance(v, int) and not isinstance(v, bool) else v
    if which == "bang":
        return v + "!" if isinstance(v, str) else v
    return v


def default_src(a: AttrDecl):
    style, recipe = a.default if a.default is not None else (None, None)
    extra = []
    if not a.init:
        extra.append("init=False")
    if not a.repr:
        extra.append("repr=False")
    if not a.compare:
        extra.append("compare=False")
    spec_extra = list(extra)
    if a.do_not_copy:
        spec_extra.append("do_not_copy=True")
    if a.invalidated_by:
        spec_extra.append(f"invalidated_by={list(a.invalidated_by)!r}")
    if style is None:
        if spec_extra:
            return f"Attr({', '.join(spec_extra)})"
        return None
    if style == "lit":
        if spec_extra:  # flags need an Attr
            return f"Attr(default={src(recipe)}, {', '.join(spec_extra)})"
        return src(recipe)
    if style == "attr":
        return f"Attr({', '.join([f'default={src(recipe)}'] + spec_extra)})"
    if style == "factory":
        return f"Attr({', '.join([f'default_factory=lambda: {src(recipe)}'] + spec_extra)})"
    if style == "field":
        return f"field({', '.join([f'default={src(recipe)}'] + extra)})"
    if style == "field_factory":
        return f"field({', '.join([f'default_factory=lambda: {src(recipe)}'] + extra)})"
    raise ValueError(style)


def render_class(m: ModuleDecl, c: ClassDecl):
    out = []
    if c.kind == "spec":
        args = []
        if c.key_explicit:
            args.append(f"key={c.key!r}")
        if c.frozen is not None:
            args.append(f"frozen={c.frozen}")
        if c.dnc_class:
            args.append("do_not_copy=True")
        elif c.dnc_list:
            args.append(f"do_not_copy={list(c.dnc_list)!r}")
        args.append(f"bootstrap={c.bootstrap}")
        if c.overflow:
            args.append(f"init_overflow_attr={c.overflow!r}")
        out.append(f"\n@spec_class({', '.join(args)})")
    else:
        out.append("")
    out.append(f"class {c.name}{'(' + c.base + ')' if c.base else ''}:")
    body = []
    for a in c.attrs:
        d = default_src(a)
        if a.annotated and c.kind == "spec":
            body.append(f"    {a.name}: {a.info.ann}" + (f" = {d}" if d is not None else ""))
        elif d is not None:
            body.append(f"    {a.name} = {d}")
        # (else: the class only overrides the attribute's preparer methods, emitted below)
    if c.overflow and c.overflow not in [a.name for a in c.attrs]:
        pass
    for a in c.attrs:
        if a.preparer:
            body.append(f"\n    def _prepare_{a.name}(self, v):\n        PROBE.enter('prep:{a.name}')\n        return {PREPARER_BODY[a.preparer]}")
        if a.item_preparer:
            body.append(f"\n    def _prepare_{a.info.singular}(self, v):\n        PROBE.enter('iprep:{a.name}')\n        return {PREPARER_BODY[a.item_preparer]}")
    for p in c.props:
        opts = [f"cache={p.cache}"]
        if not p.overridable:
            opts.append("overridable=False")
        if p.invalidated_by:
            opts.append(f"invalidated_by={list(p.invalidated_by)!r}")
        reads = ", ".join(f"_ro(self, {d!r})" for d in p.deps)
        body.append(f"\n    @spec_property({', '.join(opts)})\n    def {p.name}(self):\n        PROBE.enter('get:{p.name}')\n        return [{reads}]")
    if c.post_init:
        body.append(f"\n    def __post_init__(self):\n        PROBE.enter('post_init:{c.name}', self)")
    if c.post_copy:
        body.append(f"\n    def __post_copy__(self):\n        PROBE.enter('post_copy:{c.name}', self)" + ("\n        self.copy_generation = getattr(self, 'copy_generation', 0) + 1" if c.post_copy_writes else ""))
    if c.delegating_init:
        body.append(f"\n    def __init__(self, **kwargs):\n        PROBE.enter('init:{c.name}', self)\n        {c.base}.__init__(self, **kwargs)")
    if not body:
        body.append("    pass")
    return "\n".join(out + body) + "\n"


def _ro(obj, name):
    """Read-only view of an attribute for property getters: plain-data copy, '<missing>' when absent."""
    from .snap import alpha

    try:
        return alpha(getattr(obj, name))
    except AttributeError:
        return "<missing>"


class Opaque_:
    pass


def _bump(l):
    """New spec instance equal to `l` except v+1 (built through the constructor, no library copy helper)."""
    kw = {k: copy.deepcopy(v) for k, v in l.__dict__.items() if not k.startswith("__")}
    kw["v"] = kw.get("v", 0) + 1
    return type(l)(**kw)


def make_transforms(probe):
    """Pure transform functions (each returns a NEW object) + raising / ill-typed ones, all routed through the probe."""

    def wrap(name, fn):
        def t(v):
            probe.enter(f"tf:{name}")
            return fn(v)

        t.__name__ = name
        return t

    def boom(v):
        raise ValueError("transform failed (user callback raised)")

    table = {
        "inc": lambda v: v + 1,
        "neg": lambda v: -v,
        "addz": lambda v: v + "z",
        "rev": lambda v: list(reversed(copy.deepcopy(v))),
        "app9": lambda v: list(copy.deepcopy(v)) + [9],
        "setadd9": lambda v: set(v) | {9},
        "setaddz": lambda v: set(v) | {"z"},
        "dictadd": lambda v: {**copy.deepcopy(v), "n": 1},
        "dictcopy": lambda v: dict(copy.deepcopy(v)),
        "listcopy": lambda v: list(copy.deepcopy(v)),
        "leaf_bump": _bump,
        "kleaf_bump": _bump,
        "ident_copy": lambda v: copy.deepcopy(v),
        "shallow": lambda v: copy.copy(v),  # a new container / instance that holds the old elements / nested values
        "same": lambda v: v,
        "boom": boom,
        "to_obj": lambda v: object(),
        "to_none": lambda v: None,
        "to_str": lambda v: "bad",
        "to_int": lambda v: 3,
        "to_float": lambda v: float(v) if isinstance(v, int) else 1.5,  # compares equal to the old value, wrong type
        "to_key": lambda v: getattr(v, "k", "a"),  # a value of the key type where the keyed element is expected
    }
    return {k: wrap(k, f) for k, f in table.items()}


BAD_RESULT_FOR_ELEM = {
    "int": ["to_obj", "to_none", "to_str", "to_float"],
    "str": ["to_obj", "to_none", "to_int"],
    "leaf": ["to_obj", "to_none", "to_str", "to_int"],
    "kleaf": ["to_obj", "to_none", "to_key", "to_int"],
}


def bad_transform(rng, tk=None, elem=None):
    """Name of a transform whose result does not conform to attribute type `tk` / element type `elem`."""
    if elem is not None:
        return rng.choice(BAD_RESULT_FOR_ELEM[elem])
    if tk in ("int", "int2", "bnd"):
        return rng.choice(["to_obj", "to_none", "to_str", "to_float"])
    if tk == "optint":
        return rng.choice(["to_obj", "to_str", "to_float"])
    if tk == "union":
        return rng.choice(["to_obj", "to_none", "to_float"])
    if tk in ("str", "lit"):
        return rng.choice(["to_obj", "to_none", "to_int"])
    if tk == "float":
        return rng.choice(["to_obj", "to_none", "to_str"])
    if tk == "leaf":
        return rng.choice(["to_obj", "to_none", "to_str", "to_int"])
    return rng.choice(["to_obj", "to_int"])


def model_transform(name, v):
    """Effect of a named transform on plain abstract data (ints/strs/lists/dicts/frozensets)."""
    if name == "inc":
        return v + 1
    if name == "neg":
        return -v
    if name == "addz":
        return v + "z"
    if name == "rev":
        return list(reversed(v))
    if name == "app9":
        return list(v) + [9]
    if name == "setadd9":
        return frozenset(v) | {9}
    if name == "setaddz":
        return frozenset(v) | {"z"}
    if name == "dictadd":
        return {**v, "n": 1}
    if name in ("dictcopy", "listcopy", "ident_copy", "same", "shallow"):
        return copy.deepcopy(v)
    if name in ("leaf_bump", "kleaf_bump"):
        kind, cname, d = v
        d2 = dict(d)
        d2["v"] = d.get("v", 0) + 1
        return (kind, cname, d2)
    raise ValueError(name)


TRANSFORMS_FOR = {
    "int": ["inc", "neg"],
    "int2": ["inc", "neg"],
    "str": ["addz"],
    "float": ["inc", "neg"],
    "union": ["same"],
    "optint": ["same"],
    "lit": ["same"],
    "bnd": ["inc"],
    "li": ["rev", "app9", "listcopy"],
    "ls": ["rev", "listcopy"],
    "dsi": ["dictadd", "dictcopy"],
    "si": ["setadd9"],
    "ss": ["setaddz"],
    "leaf": ["leaf_bump", "ident_copy"],
    "lleaf": ["rev", "listcopy"],
    "dleaf": ["dictcopy"],
    "lk": ["rev", "listcopy"],
    "dk": ["dictcopy"],
    "kl": ["ident_copy"],
    "ks": ["ident_copy"],
}
ELEM_TRANSFORMS = {"int": ["inc", "neg"], "str": ["addz"], "leaf": ["leaf_bump", "ident_copy"], "kleaf": ["kleaf_bump", "ident_copy"]}


# ---------------------------------------------------------------------------
# materialisation
# ---------------------------------------------------------------------------


class World:
    """A generated module, exec-ed: real classes + probe + live instances."""

    def __init__(self, decl: ModuleDecl, probe: Optional[faults.Probe] = None):
        self.decl = decl
        self.probe = probe or faults.Probe()
        self.source = decl.source()
        # a real module object registered in sys.modules: lazy bootstrap resolves annotations through it
        World._counter += 1
        self.modname = f"verif_generated_{World._counter}"
        self.module = types.ModuleType(self.modname)
        sys.modules[self.modname] = self.module
        self.ns = self.module.__dict__
        self.ns.update({"PROBE": self.probe, "_ro": _ro})
        self.ns["TRANSFORMS"] = make_transforms(self.probe)
        exec(compile(self.source, f"<verif-generated-module {self.modname}>", "exec"), self.ns)
        self.classes = {c.name: self.ns[c.name] for c in decl.classes}
        self.env = {
            "classes": {"Leaf": self.ns["Leaf"], "KLeaf": self.ns["KLeaf"], "KeyedList": self.ns["KeyedList"], "KeyedSet": self.ns["KeyedSet"]},
            "keyfn": lambda it: it.k,
        }

    _counter = 0

    def build(self, recipe):
        return build_ext(recipe, self.ns)

    def close(self):
        sys.modules.pop(self.modname, None)


# ---------------------------------------------------------------------------
# random generation
# ---------------------------------------------------------------------------

SCALAR_TKS = ["int", "int2", "str", "float", "optint", "union", "lit", "bnd"]
COLL_TKS = ["li", "ls", "dsi", "si", "ss", "lleaf", "dleaf", "lk", "dk", "kl", "ks"]


def random_default(tk, rng, allow_none=True):
    """[style, recipe] or None."""
    t = TYPES[tk]
    if allow_none and rng.random() < 0.25:
        return None
    recipe = conf_recipe(tk, rng)
    mutable = t.kind != "scalar"
    if mutable:
        style = rng.choice(["lit", "attr", "factory", "field_factory"])
    else:
        style = rng.choice(["lit", "lit", "attr", "factory", "field", "field_factory"])
    return [style, recipe]


def gen_attr(tk, rng, profile):
    a = AttrDecl(tk=tk, default=random_default(tk, rng, allow_none=profile.get("allow_no_default", True)))
    t = TYPES[tk]
    if profile.get("preparers", True):
        if tk == "int" and rng.random() < 0.3:
            a.preparer = "abs"
        if tk == "str" and rng.random() < 0.3:
            a.preparer = "upper"
        if tk in ("li", "dsi", "si") and rng.random() < 0.3:
            a.item_preparer = "abs"
        if tk in ("ss", "ls") and rng.random() < 0.3:
            a.item_preparer = "upper"
    if profile.get("flags", True):
        if rng.random() < 0.1:
            a.repr = False
        if rng.random() < 0.1:
            a.compare = False
        if profile.get("init_false", False) and a.default is not None and rng.random() < 0.1:
            a.init = False
    if profile.get("dnc_attrs", True) and t.kind != "scalar" and rng.random() < 0.12:
        a.do_not_copy = True
        if a.default is not None and a.default[0] in ("field", "field_factory"):
            a.default[0] = "factory"  # dataclasses.field cannot carry do_not_copy
    return a


def _flag_free(a):
    return a.init and a.repr and a.compare and not a.do_not_copy and not a.invalidated_by


def _override_preparers(c, base_attrs, rng, profile):
    """A subclass (decorated or plain) that overrides - or is the first to define - the preparer method of an inherited attribute, and nothing else about it."""
    if not profile.get("preparers", True) or rng.random() >= 0.3:
        return
    mentioned = {a.name for a in c.attrs}
    cands = [a for a in base_attrs if a.name not in mentioned and a.tk in ("int", "str", "li", "dsi", "si", "ss", "ls")]
    if not cands:
        return
    a = rng.choice(cands)
    over = AttrDecl(tk=a.tk, default=None, annotated=False)
    if a.tk == "int":
        over.preparer = "inc"
    elif a.tk == "str":
        over.preparer = "bang"
    elif a.tk in ("li", "dsi", "si"):
        over.item_preparer = "inc"
    else:
        over.item_preparer = "bang"
    c.attrs.append(over)


def gen_module(rng, profile=None):
    """Draw a ModuleDecl: main spec class M, optionally spec subclass S(M) and/or plain subclass P(...)."""
    profile = profile or {}
    n_scalar = rng.randint(1, 3)
    n_coll = rng.randint(1, 3)
    tks = rng.sample(SCALAR_TKS, n_scalar) + rng.sample(COLL_TKS, n_coll)
    if rng.random() < 0.5:
        tks.append("leaf")
    for need in profile.get("require", ()):
        if need not in tks:
            tks.append(need)
    rng.shuffle(tks)
    want_S = profile.get("subclasses", True) and rng.random() < 0.35
    want_P = profile.get("subclasses", True) and rng.random() < 0.3
    if (want_S or want_P) and not profile.get("dnc_with_subclasses"):
        profile = dict(profile, dnc_attrs=False)  # do_not_copy x subclassing: see DESIGN.md (kept apart)
    attrs = [gen_attr(tk, rng, profile) for tk in tks]
    M = ClassDecl(name="M", attrs=attrs, bootstrap=rng.random() < 0.5)
    names = [a.name for a in attrs]
    # key attribute
    if profile.get("keys", True) and "label" in names and rng.random() < 0.35:
        M.key, M.key_explicit = "label", True
    # invalidated_by on one attribute
    if profile.get("invalidation", True) and len(attrs) >= 2 and rng.random() < 0.3:
        victim = rng.choice([a for a in attrs if a.name != M.key] or attrs)
        others = [a.name for a in attrs if a is not victim]
        if victim.default is not None and victim.default[0] in ("lit", "attr", "factory") and others and victim.name != M.key:
            victim.invalidated_by = (rng.choice(others),)
    # do_not_copy via decorator list
    if profile.get("dnc_attrs", True) and rng.random() < 0.15:
        cands = [a.name for a in attrs if a.info.kind != "scalar"]
        if cands:
            M.dnc_list = (rng.choice(cands),)
    # cached derived property
    if profile.get("props", True) and rng.random() < 0.4:
        deps = tuple(rng.sample(names, min(len(names), rng.randint(1, 2))))
        inv = deps if rng.random() < 0.8 else ("*",)
        M.props.append(PropDecl(name="derived", deps=deps, cache=True, invalidated_by=inv))
    if profile.get("hooks", True):
        M.post_init = rng.random() < 0.25
        M.post_copy = rng.random() < 0.25
    if profile.get("frozen", False):
        M.frozen = True
    classes = [M]
    last = M
    if want_S:
        S = ClassDecl(name="S", base="M", bootstrap=rng.random() < 0.5)
        # re-declare one attribute with a new default (ownership moves)
        a0 = rng.choice(attrs)
        dnc_declared = [a for a in attrs if a.do_not_copy or a.name in M.dnc_list]
        if profile.get("redeclare_dnc") and dnc_declared and rng.random() < profile["redeclare_dnc"]:
            a0 = rng.choice(dnc_declared)  # (what becomes of the parent's do_not_copy declaration)
        if a0.name != M.key and a0.init and a0.repr and a0.compare and not a0.invalidated_by and rng.random() < profile.get("bare_redeclaration", 0.3):
            S.attrs.append(AttrDecl(tk=a0.tk, default=None, bare=True))  # annotation only
        elif a0.name != M.key:
            S.attrs.append(AttrDecl(tk=a0.tk, default=random_default(a0.tk, rng, allow_none=False), preparer=None))
        # merely re-default another (ownership stays)
        rest = [a for a in attrs if a is not a0 and a.name != M.key and _flag_free(a)]
        if rest and rng.random() < 0.6:
            a1 = rng.choice(rest)
            d = random_default(a1.tk, rng, allow_none=False)
            d[0] = rng.choice(["lit", "lit", "attr"])  # `x = 5` or `x = Attr(default=5)`, in both cases without a new annotation
            over = AttrDecl(tk=a1.tk, default=d, annotated=False)
            if profile.get("preparers", True) and rng.random() < 0.5:
                # ... and overrides its preparer / item preparer (a method like any other) along with the default
                if a1.tk == "int":
                    over.preparer = "inc"
                elif a1.tk == "str":
                    over.preparer = "bang"
                elif a1.tk in ("li", "dsi", "si"):
                    over.item_preparer = "inc"
                elif a1.tk in ("ss", "ls"):
                    over.item_preparer = "bang"
            S.attrs.append(over)
        # add a new attribute
        unused = [tk for tk in SCALAR_TKS + COLL_TKS if TYPES[tk].name not in names]
        if unused and rng.random() < 0.6:
            S.attrs.append(gen_attr(rng.choice(unused), rng, profile))
        if profile.get("dnc_with_subclasses") and rng.random() < 0.7:
            # the subclass declares its own (different) do_not_copy list for inherited attributes
            cands = [a.name for a in attrs if a.info.kind != "scalar" and a.name not in M.dnc_list]
            S.dnc_list = tuple(rng.sample(cands, min(len(cands), rng.randint(0, 1))))
        _override_preparers(S, attrs, rng, profile)
        classes.append(S)
        last = S
    if want_P:
        P = ClassDecl(name="P", kind="plain", base=last.name)
        cand = [a for a in attrs if a.name != M.key and _flag_free(a)]
        if cand:
            a2 = rng.choice(cand)
            d = random_default(a2.tk, rng, allow_none=False)
            d[0] = "lit"
            P.attrs.append(AttrDecl(tk=a2.tk, default=d, annotated=False))
        _override_preparers(P, attrs, rng, profile)
        classes.append(P)
    if profile.get("delegating_init") and rng.random() < profile["delegating_init"]:
        # a subclass (decorated or plain) whose hand-written constructor forwards to the generated one of its parent
        classes.append(ClassDecl(name="D", kind=rng.choice(["spec", "plain"]), base=last.name, delegating_init=True, bootstrap=rng.random() < 0.5))
    return ModuleDecl(classes=classes, leaf_bootstrap=rng.random() < 0.7)


_MODCOUNT = [0]


def exec_module(source, extra=None, prefix="verif_adhoc"):
    """exec `source` in a real module registered in sys.modules (lazy bootstrap resolves annotations through it)."""
    _MODCOUNT[0] += 1
    name = f"{prefix}_{_MODCOUNT[0]}"
    mod = types.ModuleType(name)
    sys.modules[name] = mod
    mod.__dict__.update(extra or {})
    exec(compile(source, f"<{name}>", "exec"), mod.__dict__)
    return mod
